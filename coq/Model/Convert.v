(* Convert.v — what each attribute kind accepts and stores (Attribute.convert_value and the subtype converters),
   driven by the schema regenerated from /repo (Gen/Schema.v). *)
From DV Require Export Gen.Schema Model.Eflr.

(* ---- raw API inputs ---- *)
Inductive rhint := HNone | HInt (z : Z) | HFloat (b : Z) | HDT (d : dtime)
  | HFloatLoose (b : Z).      (* float(s) succeeds although s has no '.' (e.g. "1e3"): only DTime/allow_float uses it *)
(* the hint of a string is its meaning under int()/float()/strptime as computed by CPython (trusted, supplied by the harness) *)
Inductive raw :=
| RNone | RInt (z : Z) | RBool (b : bool) | RFloat (b : Z)
| RStr (s : list Z) (h : rhint)
| RDT (d : dtime)
| RRef (i : nat)                       (* an object by creation index *)
| RList (l : list raw)                 (* list or tuple *)
| REnum (e m : Z)                      (* member m of enumeration e *)
| ROther.

(* ---- stored Python values ---- *)
Inductive sval := SInt (z : Z) | SBool (b : bool) | SFloat (b : Z) | SStr (s : list Z) | SDT (d : dtime) | SItem (i : nat) | SOther.
Inductive snv := SLeaf (v : sval) | SNode (l : list snv).
Inductive spv := SPNone | SPScalar (v : sval) | SPList (l : list snv).

(* ---- schema accessors ---- *)
Record adef := {
  ad_name : list Z; ad_label : list Z; ad_kind : Z; ad_mv : bool; ad_md : bool; ad_rc0 : option Z; ad_valid : list Z;
  ad_units : bool; ad_ref : Z; ad_conv : Z; ad_int_only : bool; ad_allow_float : bool }.
Definition adef_of (a : g_attr) : adef :=
  match a with (n, l, k, mv, md, rc, v, u, r, c, io, af) =>
    {| ad_name := n; ad_label := l; ad_kind := k; ad_mv := mv; ad_md := md; ad_rc0 := rc; ad_valid := v; ad_units := u;
       ad_ref := r; ad_conv := c; ad_int_only := io; ad_allow_float := af |} end.
Record tdef := { td_key : list Z; td_settype : list Z; td_lrtype : Z; td_attrs : list adef }.
Definition tdef_of (t : list Z * list Z * Z * list g_attr) : tdef :=
  match t with (k, s, l, az) => {| td_key := k; td_settype := s; td_lrtype := l; td_attrs := map adef_of az |} end.
Definition schema : list tdef := map tdef_of g_schema.
Definition dummy_tdef : tdef := {| td_key := []; td_settype := []; td_lrtype := 0; td_attrs := [] |}.
Definition tdef_at (ty : nat) : tdef := nth ty schema dummy_tdef.

(* kinds (gen_tables.KIND) *)
Definition K_GENERIC := 0. Definition K_TEXT := 1. Definition K_IDENT := 2. Definition K_NUMERIC := 3. Definition K_DIM := 4.
Definition K_STATUS := 5. Definition K_DTIME := 6. Definition K_REF := 7. Definition K_REFTEXT := 8. Definition K_REPRCODE := 9.

(* ---- helpers ---- *)

(* float(x).is_integer() and int(x) for a binary64 bit pattern *)
Definition f64_to_int (bits : Z) : option Z :=
  let neg := 9223372036854775808 <=? bits in
  let e := (bits / 4503599627370496) mod 2048 in
  let m := bits mod 4503599627370496 in
  let sgn z := if neg then - z else z in
  if e =? 2047 then None
  else if e =? 0 then (if m =? 0 then Some 0 else None)
  else
    let mm := m + 4503599627370496 in
    let sh := e - 1075 in
    if 0 <=? sh then Some (sgn (mm * 2 ^ sh))
    else if 53 <? - sh then None
    else if mm mod 2 ^ (- sh) =? 0 then Some (sgn (mm / 2 ^ (- sh))) else None.

(* HC_STRING_PATTERN "[A-Z0-9_-]+" fullmatch *)
Definition hc_char (c : Z) : bool := ((65 <=? c) && (c <=? 90)) || ((48 <=? c) && (c <=? 57)) || (c =? 95) || (c =? 45).
Definition hc_string (s : list Z) : bool := nonnil s && forallb hc_char s.

Definition enum_values (e : Z) : list (list Z) := nth (Z.to_nat e) g_enums [].
Definition in_enum (e : Z) (s : list Z) : bool := existsb (list_eqb s) (enum_values e).

Definition is_int_code (c : Z) : bool := (12 <=? c) && (c <=? 18).

Definition int_parse (r : raw) : res Z :=
  match r with
  | RInt z => OK z
  | RBool b => OK (b2z b)
  | RFloat bits => match f64_to_int bits with Some z => OK z | None => Err EValue end
  | _ => Err EType
  end.
Definition float_parse (r : raw) : res Z :=
  match r with
  | RFloat b => OK b
  | RInt z => int_to_f64 z
  | RBool b => int_to_f64 (b2z b)
  | _ => Err EType
  end.

(* ValidatorEnum.make_converter: returns the stored value, None for a stored None *)
Definition enum_conv (hc : bool) (e : Z) (soft allow_none : bool) (r : raw) : res (option sval) :=
  match r with
  | RNone => if allow_none then OK None else Err EType
  | REnum e' m => if e' =? e then match nth_error (enum_values e) (Z.to_nat m) with
                                  | Some v => OK (Some (SStr v)) | None => Err EOther end
                  else Err EOther                                  (* a member of another enumeration: outside the model *)
  | RStr s _ => if in_enum e s then OK (Some (SStr s))
                else if soft && negb hc then OK (Some (SStr s)) else Err EValue
  | _ => Err EType
  end.

Definition store_any (r : raw) : res (option sval) :=
  match r with
  | RNone => OK None
  | RInt z => OK (Some (SInt z)) | RBool b => OK (Some (SBool b)) | RFloat b => OK (Some (SFloat b))
  | RStr s _ => OK (Some (SStr s)) | RDT d => OK (Some (SDT d)) | RRef i => OK (Some (SItem i))
  | ROther => OK (Some SOther)
  | _ => Err EOther
  end.

(* element converter of attribute `ad`. cur_int: the attribute's current representation code is an integer code;
   cur_set: the attribute currently has a value; item_ty i: the type of object i if it exists *)
Definition conv_elem (hc : bool) (item_ty : nat -> option nat) (ad : adef) (cur_int cur_set : bool) (r : raw) : res (option sval) :=
  let k := ad_kind ad in
  let c := ad_conv ad in
  if k =? K_REPRCODE then Err ERuntime
  else if k =? K_TEXT then match r with RStr s _ => OK (Some (SStr s)) | REnum _ _ => Err EOther | _ => Err EType end
  else if k =? K_IDENT then
    if c =? 0 then store_any r
    else if c =? 1 then match r with
                        | RStr s _ => if hc && negb (hc_string s) then Err EValue else OK (Some (SStr s))
                        | REnum _ _ => Err EOther | _ => Err EType end
    else if (10 <=? c) && (c <? 30) then enum_conv hc (c - 10) false false r
    else if (30 <=? c) && (c <? 50) then enum_conv hc (c - 30) true (c =? 30) r
    else if (50 <=? c) && (c <? 70) then enum_conv hc (c - 50) false true r
    else Err EOther
  else if (k =? K_NUMERIC) || (k =? K_DIM) then
    do v <- (if ad_int_only ad || cur_int || (k =? K_DIM)
             then (do z <- int_parse r; OK (SInt z)) else (do b <- float_parse r; OK (SFloat b)));
    if c =? 3 then match v with SInt z => if (z =? 0) || (z =? 1) then OK (Some v) else Err EValue | _ => Err EValue end
    else if c =? 4 then (if cur_set then Err ERuntime else OK (Some v))
    else OK (Some v)
  else if k =? K_STATUS then
    match r with
    | RBool b => OK (Some (SInt (b2z b)))
    | RInt z => if (z =? 0) || (z =? 1) then OK (Some (SInt z)) else Err EValue
    | RFloat b => match f64_to_int b with Some z => if (z =? 0) || (z =? 1) then OK (Some (SInt z)) else Err EValue | None => Err EValue end
    | RStr _ (HInt z) => if (z =? 0) || (z =? 1) then OK (Some (SInt z)) else Err EValue
    | RStr _ _ => Err EValue
    | _ => Err EType
    end
  else if k =? K_DTIME then
    match r with
    | RDT d => OK (Some (SDT d))
    | RInt _ | RBool _ | RFloat _ => if ad_allow_float ad then (do b <- float_parse r; OK (Some (SFloat b))) else Err EType
    | RStr _ (HDT d) => OK (Some (SDT d))
    | RStr _ (HFloat b) | RStr _ (HFloatLoose b) => if ad_allow_float ad then OK (Some (SFloat b)) else Err EValue
    | RStr _ (HInt z) => if ad_allow_float ad then (do b <- int_to_f64 z; OK (Some (SFloat b))) else Err EValue
    | RStr _ HNone => Err EValue
    | _ => Err EType
    end
  else if (k =? K_REF) || (k =? K_REFTEXT) then
    match r with
    | RRef i => match item_ty i with
                | Some t => if (ad_ref ad <? 0) || (Z.of_nat t =? ad_ref ad) then OK (Some (SItem i)) else Err EType
                | None => Err EType
                end
    | RStr s _ => if k =? K_REFTEXT then OK (Some (SStr s)) else Err EType
    | _ => Err EType
    end
  else if k =? K_GENERIC then
    if c =? 2 then
      match r with
      | RInt z => OK (Some (SInt z)) | RBool b => OK (Some (SBool b)) | RFloat b => OK (Some (SFloat b))
      | RStr s (HInt z) => OK (Some (SInt z)) | RStr s (HFloat b) => OK (Some (SFloat b)) | RStr s _ => OK (Some (SStr s))
      | REnum _ _ => Err EOther
      | _ => Err EType
      end
    else store_any r
  else Err EOther.

Definition some_or_other (o : option sval) : res sval := match o with Some v => OK v | None => Err EOther end.

(* the multidimensional wrapper: nested lists are converted element-wise *)
Fixpoint conv_nested (f : raw -> res (option sval)) (md : bool) (r : raw) : res snv :=
  match r with
  | RList l =>
      if md then
        bind ((fix go (l : list raw) : res (list snv) :=
                 match l with
                 | [] => OK []
                 | x :: xs => do a <- conv_nested f md x; do b <- go xs; OK (a :: b)
                 end) l) (fun l' => OK (SNode l'))
      else (do v <- f r; do v' <- some_or_other v; OK (SLeaf v'))
  | _ => do v <- f r; do v' <- some_or_other v; OK (SLeaf v')
  end.

Fixpoint conv_list (g : raw -> res snv) (l : list raw) : res (list snv) :=
  match l with
  | [] => OK []
  | x :: xs => do a <- g x; do b <- conv_list g xs; OK (a :: b)
  end.

(* Attribute.convert_value *)
Definition convert_value (f : raw -> res (option sval)) (ad : adef) (r : raw) : res spv :=
  if ad_mv ad then
    let l := match r with RList l => l | _ => [r] end in
    do l' <- conv_list (conv_nested f (ad_md ad)) l; OK (SPList l')
  else
    match r with
    | RList _ => Err EType
    | _ => do v <- f r; OK (match v with Some v' => SPScalar v' | None => SPNone end)
    end.

(* Attribute.units setter: the soft Unit checker (enumeration 0), None allowed *)
Definition convert_units (hc : bool) (ad : adef) (r : raw) : res (option (list Z)) :=
  if negb (ad_units ad) then Err ERuntime
  else do v <- enum_conv hc 0 true true r;
       match v with Some (SStr s) => OK (Some s) | None => OK None | _ => Err EOther end.
