(* Dispatch.v — one entry point for the extracted binary and for vm_compute: request tree -> reply tree. *)
From DV Require Export Model.Tree Model.Reader Model.Iflr Model.EflrReader Model.Data Model.FileReader Model.ApiDispatch.

Definition t_lrec (r : lrec) : tree := TL [t_bool (lr_eflr r); TI (lr_type r); TB (lr_body r)].
Definition as_lrec (t : tree) : option lrec :=
  match t with
  | TL [e; TI ty; TB b] => match as_bool e with Some e' => Some {| lr_eflr := e'; lr_type := ty; lr_body := b |} | None => None end
  | _ => None
  end.

Definition as_obname (t : tree) : option obname :=
  match t with
  | TL [o; TI c; TB n] => match as_optint o with Some o' => Some {| on_origin := o'; on_copy := c; on_name := n |} | None => None end
  | _ => None
  end.
Definition t_obname (o : obname) : tree :=
  TL [match on_origin o with Some z => TI z | None => TL [] end; TI (on_copy o); TB (on_name o)].

(* primitive encoders by representation code number (text arrives as a list of code points in TB) *)
Definition prim (code : Z) (v : tree) : tree :=
  match code, v with
  | 2, TI z => t_res TB (enc_fsingl z)
  | 7, TI z => t_res TB (enc_fdoubl z)
  | 12, TI z => t_res TB (enc_sshort z)
  | 13, TI z => t_res TB (enc_snorm z)
  | 14, TI z => t_res TB (enc_slong z)
  | 15, TI z => t_res TB (enc_ushort z)
  | 16, TI z => t_res TB (enc_unorm z)
  | 17, TI z => t_res TB (enc_ulong z)
  | 18, TI z => t_res TB (enc_uvari z)
  | 19, TB s => t_res TB (enc_ident s)
  | 20, TB s => t_res TB (enc_ascii s)
  | 21, TL [TI y; TI mo; TI d; TI h; TI mi; TI s; TI us] =>
      t_res TB (enc_dtime {| dt_year := y; dt_month := mo; dt_day := d; dt_hour := h; dt_min := mi; dt_sec := s; dt_us := us |})
  | 23, t => match as_obname t with Some o => t_res TB (enc_obname o) | None => t_bad end
  | 24, TL [TB ty; t] => match as_obname t with Some o => t_res TB (enc_objref ty o) | None => t_bad end
  | 26, TI z => t_res TB (enc_status z)
  | _, _ => t_bad
  end.

(* the standard's decoders: value and number of bytes consumed *)
Definition t_dec {A} (f : A -> tree) (bs : bytes) (r : option (A * bytes)) : tree :=
  match r with Some (v, rest) => t_ok (TL [f v; TI (zlen bs - zlen rest)]) | None => t_none end.
Definition prim_dec (code : Z) (bs : bytes) : tree :=
  match code with
  | 2 => t_dec TI bs (dec_fsingl bs)
  | 7 => t_dec TI bs (dec_fdoubl bs)
  | 12 => t_dec TI bs (dec_sshort bs)
  | 13 => t_dec TI bs (dec_snorm bs)
  | 14 => t_dec TI bs (dec_slong bs)
  | 15 => t_dec TI bs (dec_ushort bs)
  | 16 => t_dec TI bs (dec_unorm bs)
  | 17 => t_dec TI bs (dec_ulong bs)
  | 18 => t_dec TI bs (dec_uvari bs)
  | 19 => t_dec TB bs (dec_ident bs)
  | 20 => t_dec TB bs (dec_ascii bs)
  | 21 => t_dec (fun d => TL [TI (dd_year d); TI (dd_tz d); TI (dd_month d); TI (dd_day d); TI (dd_hour d);
                               TI (dd_min d); TI (dd_sec d); TI (dd_ms d)]) bs (dec_dtime bs)
  | 23 => t_dec t_obname bs (dec_obname bs)
  | 24 => t_dec (fun '(t, o) => TL [TB t; t_obname o]) bs (dec_objref bs)
  | 26 => t_dec TI bs (dec_status bs)
  | _ => t_bad
  end.

Definition t_seg (s : segment) : tree :=
  TL [t_bool (s_eflr s); t_bool (s_pred s); t_bool (s_succ s); TI (s_type s); TB (s_chunk s); TB (s_padb s)].

Definition as_slot (t : tree) : option slot :=
  match t with TL [TI size; TB vs] => Some (size, vs) | _ => None end.
Definition t_slot (s : slot) : tree := TL [TI (fst s); TB (snd s)].
Definition as_descr (t : tree) : option (Z * nat) :=
  match t with TL [TI size; TI n] => Some (size, Z.to_nat n) | _ => None end.
Definition as_payload (t : tree) : option payload :=
  match t with TL [TI 0; TB b] => Some (PBytes b) | TL [TI 1; TB s] => Some (PText s) | _ => None end.


(* ---- EFLR state from / to trees ---- *)
Definition as_dtime (t : tree) : option dtime :=
  match t with
  | TL [TI y; TI mo; TI d; TI h; TI mi; TI s; TI us] =>
      Some {| dt_year := y; dt_month := mo; dt_day := d; dt_hour := h; dt_min := mi; dt_sec := s; dt_us := us |}
  | _ => None
  end.
Definition as_aval (t : tree) : option aval :=
  match t with
  | TL [TI 0; TI z] => Some (VInt z)
  | TL [TI 1; b] => match as_bool b with Some b' => Some (VBool b') | None => None end
  | TL [TI 2; TI bits] => Some (VFloat bits)
  | TL [TI 3; TB s] => Some (VStr s)
  | TL [TI 4; d] => match as_dtime d with Some d' => Some (VDT d') | None => None end
  | TL [TI 5; TB ty; o] => match as_obname o with Some o' => Some (VRef ty o') | None => None end
  | TL [TI 6] => Some VOther
  | _ => None
  end.
Fixpoint as_nval (t : tree) : option nval :=
  match t with
  | TL [TI 0; v] => match as_aval v with Some v' => Some (NLeaf v') | None => None end
  | TL [TI 1; TL l] =>
      match (fix go (l : list tree) : option (list nval) :=
               match l with
               | [] => Some []
               | x :: r => match as_nval x, go r with Some y, Some ys => Some (y :: ys) | _, _ => None end
               end) l with
      | Some l' => Some (NNode l')
      | None => None
      end
  | _ => None
  end.
Definition as_pval (t : tree) : option pval :=
  match t with
  | TL [] => Some PNone
  | TL [TI 0; v] => match as_aval v with Some v' => Some (PScalar v') | None => None end
  | TL [TI 1; TL l] => match map_opt as_nval l with Some l' => Some (PList l') | None => None end
  | _ => None
  end.
Definition as_opttext (t : tree) : option (option (list Z)) :=
  match t with TL [] => Some None | TB s => Some (Some s) | _ => None end.
Definition as_attr (t : tree) : option attr :=
  match t with
  | TL [TB label; mv; md; rc0; TL valid; rt; units; v] =>
      match as_bool mv, as_bool md, as_optint rc0, map_opt as_int valid, as_bool rt, as_opttext units, as_pval v with
      | Some mv', Some md', Some rc', Some valid', Some rt', Some u', Some v' =>
          Some {| a_label := label; a_mv := mv'; a_md := md'; a_rc0 := rc'; a_valid := valid'; a_reftext := rt';
                  a_units := u'; a_value := v' |}
      | _, _, _, _, _, _, _ => None
      end
  | _ => None
  end.
Definition as_obj (t : tree) : option obj :=
  match t with
  | TL [o; TL az] => match as_obname o, map_opt as_attr az with
                     | Some o', Some az' => Some {| o_name := o'; o_attrs := az' |}
                     | _, _ => None
                     end
  | _ => None
  end.
Definition as_eset (t : tree) : option eset :=
  match t with
  | TL [TB ty; nm; TL os] => match as_opttext nm, map_opt as_obj os with
                             | Some nm', Some os' => Some {| e_type := ty; e_name := nm'; e_objs := os' |}
                             | _, _ => None
                             end
  | _ => None
  end.

Definition t_opttext (o : option (list Z)) : tree := match o with Some s => TB s | None => TL [] end.
Definition t_dval (v : dval) : tree :=
  match v with
  | DInt z => TL [TI 0; TI z]
  | DBits b => TL [TI 1; TI b]
  | DText s => TL [TI 2; TB s]
  | DDT d => TL [TI 3; TL [TI (dd_year d); TI (dd_tz d); TI (dd_month d); TI (dd_day d); TI (dd_hour d); TI (dd_min d); TI (dd_sec d); TI (dd_ms d)]]
  | DName o => TL [TI 4; t_obname o]
  | DRef t o => TL [TI 5; TB t; t_obname o]
  end.
Definition t_dattr (a : dattr) : tree :=
  TL [TI (d_count a); TI (d_code a); t_opttext (d_units a);
      match d_values a with Some vs => TL [TI 0; t_list t_dval vs] | None => TL [] end].
Definition t_dset (d : dset) : tree :=
  TL [TB (ds_type d); t_opttext (ds_name d);
      t_list (fun t => TL [TB (t_label t); t_dattr (t_attr t)]) (ds_tmpl d);
      t_list (fun o => TL [t_obname (do_name o); t_list (fun a => match a with Some a' => t_dattr a' | None => TL [] end) (do_attrs o)]) (ds_objs d);
      t_bool (template_ok d)].

Definition dispatch (t : tree) : tree :=
  match t with
  | TL [TI 1; TI code; v] => prim code v
  | TL [TI 2; TI code; TB bs] => prim_dec code bs
  | TL [TI 3; TI cap; r] =>                                   (* make_segments *)
      match as_lrec r with Some r' => t_res (t_list TB) (make_segments cap r') | None => t_bad end
  | TL [TI 4; TI seq; TI vrl; TB ident; TL recs] =>           (* write_file *)
      match map_opt as_lrec recs with
      | Some rs => t_res TB (write_file {| sul_seq := seq; sul_vrl := vrl; sul_id := ident |} rs)
      | None => t_bad
      end
  | TL [TI 5; TI cap; TB disk0; TB sul; TL vrs] =>            (* buffered output *)
      match map_opt as_bytes vrs with
      | Some vs => let s := run_output cap disk0 sul vs in
                   TL [TB (o_disk s); TI (o_total s); t_list TB (rev (o_snaps s))]
      | None => t_bad
      end
  | TL [TI 6; TI vrl; TI num; TI den] => t_res TI (check_out_chunk vrl num den)
  | TL [TI 7; TI n; c] =>                                     (* input chunk ranges *)
      match as_optint c with
      | Some c' => t_list (fun '(a, b) => TL [TI a; TI b]) (chunk_ranges n c')
      | None => t_bad
      end
  | TL [TI 8; TI seq; TI vrl; TB ident; TB bs] =>             (* strict physical reader *)
      t_opt (t_list t_lrec) (read_records {| sul_seq := seq; sul_vrl := vrl; sul_id := ident |} bs)
  | TL [TI 9; TI seq; TI vrl; TB ident; TB bs] =>             (* segments as parsed *)
      t_opt (t_list (t_list t_seg)) (parse_file {| sul_seq := seq; sul_vrl := vrl; sul_id := ident |} bs)
  | TL [TI 10; TB bs] =>                                       (* label fields, configuration-free *)
      t_opt (fun '(a, b, c) => TL [TB a; TB b; TB c]) (read_sul bs)
  | TL [TI 11; o; p] =>                                        (* no-format body *)
      match as_obname o, as_payload p with
      | Some o', Some p' => t_res TB (nofmt_body o' p')
      | _, _ => t_bad
      end
  | TL [TI 12; o; TI n; TL ss] =>                              (* frame-data body *)
      match as_obname o, map_opt as_slot ss with
      | Some o', Some ss' => t_res TB (fdata_body o' n ss')
      | _, _ => t_bad
      end
  | TL [TI 13; TL ds; TB body] =>                              (* frame-data reader *)
      match map_opt as_descr ds with
      | Some ds' => t_opt (fun '(o, n, ss) => TL [t_obname o; TI n; t_list t_slot ss]) (dec_fdata ds' body)
      | None => t_bad
      end
  | TL [TI 14; TB body] => t_opt (fun '(o, d) => TL [t_obname o; TB d]) (dec_nofmt body)
  | TL [TI 15; TB bs] =>                                       (* bare segments: parse and reassemble *)
      match parse_segs (S (length bs)) bs with
      | Some ss => TL [TI 0; t_list t_seg ss; t_opt (t_list t_lrec) (reassemble_aux None ss)]
      | None => t_none
      end
  | TL [TI 16; TI seq; TI vrl; TB ident; TL recs; TI cap; TB disk0] =>   (* buffered writer end to end *)
      match map_opt as_lrec recs with
      | Some rs => t_res (fun s => TL [TB (o_disk s); TI (o_total s); t_list TB (rev (o_snaps s))])
                         (write_buffered {| sul_seq := seq; sul_vrl := vrl; sul_id := ident |} rs cap disk0)
      | None => t_bad
      end
  | TL [TI 20; e] => match as_eset e with Some e' => t_res TB (enc_set e') | None => t_bad end
  | TL [TI 21; a] => match as_attr a with Some a' => t_res TB (enc_attr_obj a') | None => t_bad end
  | TL [TI 22; a] => match as_attr a with Some a' => t_res TB (enc_attr_tmpl a') | None => t_bad end
  | TL [TI 23; TB bs] => t_opt t_dset (dec_set bs)                       (* strict component reader *)
  | TL [TI 24; o; TI seqnum; TB hid] =>
      match as_obname o with Some o' => t_res TB (enc_fileheader o' seqnum hid) | None => t_bad end
  | TL [TI 30; ud; ue; cast; TI src; TL shape] =>              (* channel descriptors from data *)
      let as_optl t := match t with TL [] => Some None | TL [TL l] => match map_opt as_int l with Some l' => Some (Some l') | None => None end | _ => None end in
      match as_optl ud, as_optl ue, as_optint cast, map_opt as_int shape with
      | Some ud', Some ue', Some cast', Some shape' =>
          t_res (fun '(c, d, e) => TL [TI c; t_list TI d; t_list TI e]) (channel_setup ud' ue' cast' src shape')
      | _, _, _, _ => t_bad
      end
  | TL [TI 25; TI seq; TI vrl; TB ident; TB bs] =>             (* complete strict reader *)
      t_opt (t_list (fun r => match r with
                              | LR_E ty d => TL [TI 1; TI ty; t_dset d]
                              | LR_I ty b => TL [TI 0; TI ty; TB b]
                              end))
            (read_logical {| sul_seq := seq; sul_vrl := vrl; sul_id := ident |} bs)
  | TL [TI 40; TL steps] => TL (run_program p_init b_init steps)         (* a program over the public API *)
  | TL [TI 31; TB rows] =>                                     (* index statistics, exact *)
      t_opt (fun s => TL [TI (is_min s); TI (is_max s); match is_spacing2 s with Some z => TL [TI z] | None => TL [] end;
                          match is_direction s with Some b => TL [t_bool b] | None => TL [] end]) (index_stats rows)
  | _ => t_bad
  end.
