(* Dispatch.v — one entry point for the extracted binary and for vm_compute: request tree -> reply tree. *)
From DV Require Export Model.Tree Model.Reader Model.Iflr.

Definition t_lrec (r : lrec) : tree := TL [t_bool (lr_eflr r); TI (lr_type r); TB (lr_body r)].
Definition as_lrec (t : tree) : option lrec :=
  match t with
  | TL [e; TI ty; TB b] => match as_bool e with Some e' => Some {| lr_eflr := e'; lr_type := ty; lr_body := b |} | None => None end
  | _ => None
  end.

Definition as_obname (t : tree) : option obname :=
  match t with
  | TL [o; TI c; TB n] => match as_optint o with Some o' => Some {| on_origin := o'; on_copy := c; on_name := n |} | None => None end
  | _ => None
  end.
Definition t_obname (o : obname) : tree :=
  TL [match on_origin o with Some z => TI z | None => TL [] end; TI (on_copy o); TB (on_name o)].

(* primitive encoders by representation code number (text arrives as a list of code points in TB) *)
Definition prim (code : Z) (v : tree) : tree :=
  match code, v with
  | 2, TI z => t_res TB (enc_fsingl z)
  | 7, TI z => t_res TB (enc_fdoubl z)
  | 12, TI z => t_res TB (enc_sshort z)
  | 13, TI z => t_res TB (enc_snorm z)
  | 14, TI z => t_res TB (enc_slong z)
  | 15, TI z => t_res TB (enc_ushort z)
  | 16, TI z => t_res TB (enc_unorm z)
  | 17, TI z => t_res TB (enc_ulong z)
  | 18, TI z => t_res TB (enc_uvari z)
  | 19, TB s => t_res TB (enc_ident s)
  | 20, TB s => t_res TB (enc_ascii s)
  | 21, TL [TI y; TI mo; TI d; TI h; TI mi; TI s; TI us] =>
      t_res TB (enc_dtime {| dt_year := y; dt_month := mo; dt_day := d; dt_hour := h; dt_min := mi; dt_sec := s; dt_us := us |})
  | 23, t => match as_obname t with Some o => t_res TB (enc_obname o) | None => t_bad end
  | 24, TL [TB ty; t] => match as_obname t with Some o => t_res TB (enc_objref ty o) | None => t_bad end
  | 26, TI z => t_res TB (enc_status z)
  | _, _ => t_bad
  end.

(* the standard's decoders: value and number of bytes consumed *)
Definition t_dec {A} (f : A -> tree) (bs : bytes) (r : option (A * bytes)) : tree :=
  match r with Some (v, rest) => t_ok (TL [f v; TI (zlen bs - zlen rest)]) | None => t_none end.
Definition prim_dec (code : Z) (bs : bytes) : tree :=
  match code with
  | 2 => t_dec TI bs (dec_fsingl bs)
  | 7 => t_dec TI bs (dec_fdoubl bs)
  | 12 => t_dec TI bs (dec_sshort bs)
  | 13 => t_dec TI bs (dec_snorm bs)
  | 14 => t_dec TI bs (dec_slong bs)
  | 15 => t_dec TI bs (dec_ushort bs)
  | 16 => t_dec TI bs (dec_unorm bs)
  | 17 => t_dec TI bs (dec_ulong bs)
  | 18 => t_dec TI bs (dec_uvari bs)
  | 19 => t_dec TB bs (dec_ident bs)
  | 20 => t_dec TB bs (dec_ascii bs)
  | 21 => t_dec (fun d => TL [TI (dd_year d); TI (dd_tz d); TI (dd_month d); TI (dd_day d); TI (dd_hour d);
                               TI (dd_min d); TI (dd_sec d); TI (dd_ms d)]) bs (dec_dtime bs)
  | 23 => t_dec t_obname bs (dec_obname bs)
  | 24 => t_dec (fun '(t, o) => TL [TB t; t_obname o]) bs (dec_objref bs)
  | 26 => t_dec TI bs (dec_status bs)
  | _ => t_bad
  end.

Definition t_seg (s : segment) : tree :=
  TL [t_bool (s_eflr s); t_bool (s_pred s); t_bool (s_succ s); TI (s_type s); TB (s_chunk s); TB (s_padb s)].

Definition as_slot (t : tree) : option slot :=
  match t with TL [TI size; TB vs] => Some (size, vs) | _ => None end.
Definition t_slot (s : slot) : tree := TL [TI (fst s); TB (snd s)].
Definition as_descr (t : tree) : option (Z * nat) :=
  match t with TL [TI size; TI n] => Some (size, Z.to_nat n) | _ => None end.
Definition as_payload (t : tree) : option payload :=
  match t with TL [TI 0; TB b] => Some (PBytes b) | TL [TI 1; TB s] => Some (PText s) | _ => None end.

Definition dispatch (t : tree) : tree :=
  match t with
  | TL [TI 1; TI code; v] => prim code v
  | TL [TI 2; TI code; TB bs] => prim_dec code bs
  | TL [TI 3; TI cap; r] =>                                   (* make_segments *)
      match as_lrec r with Some r' => t_res (t_list TB) (make_segments cap r') | None => t_bad end
  | TL [TI 4; TI seq; TI vrl; TB ident; TL recs] =>           (* write_file *)
      match map_opt as_lrec recs with
      | Some rs => t_res TB (write_file {| sul_seq := seq; sul_vrl := vrl; sul_id := ident |} rs)
      | None => t_bad
      end
  | TL [TI 5; TI cap; TB disk0; TB sul; TL vrs] =>            (* buffered output *)
      match map_opt as_bytes vrs with
      | Some vs => let s := run_output cap disk0 sul vs in
                   TL [TB (o_disk s); TI (o_total s); t_list TB (rev (o_snaps s))]
      | None => t_bad
      end
  | TL [TI 6; TI vrl; TI num; TI den] => t_res TI (check_out_chunk vrl num den)
  | TL [TI 7; TI n; c] =>                                     (* input chunk ranges *)
      match as_optint c with
      | Some c' => t_list (fun '(a, b) => TL [TI a; TI b]) (chunk_ranges n c')
      | None => t_bad
      end
  | TL [TI 8; TI seq; TI vrl; TB ident; TB bs] =>             (* strict physical reader *)
      t_opt (t_list t_lrec) (read_records {| sul_seq := seq; sul_vrl := vrl; sul_id := ident |} bs)
  | TL [TI 9; TI seq; TI vrl; TB ident; TB bs] =>             (* segments as parsed *)
      t_opt (t_list (t_list t_seg)) (parse_file {| sul_seq := seq; sul_vrl := vrl; sul_id := ident |} bs)
  | TL [TI 10; TB bs] =>                                       (* label fields, configuration-free *)
      t_opt (fun '(a, b, c) => TL [TB a; TB b; TB c]) (read_sul bs)
  | TL [TI 11; o; p] =>                                        (* no-format body *)
      match as_obname o, as_payload p with
      | Some o', Some p' => t_res TB (nofmt_body o' p')
      | _, _ => t_bad
      end
  | TL [TI 12; o; TI n; TL ss] =>                              (* frame-data body *)
      match as_obname o, map_opt as_slot ss with
      | Some o', Some ss' => t_res TB (fdata_body o' n ss')
      | _, _ => t_bad
      end
  | TL [TI 13; TL ds; TB body] =>                              (* frame-data reader *)
      match map_opt as_descr ds with
      | Some ds' => t_opt (fun '(o, n, ss) => TL [t_obname o; TI n; t_list t_slot ss]) (dec_fdata ds' body)
      | None => t_bad
      end
  | TL [TI 14; TB body] => t_opt (fun '(o, d) => TL [t_obname o; TB d]) (dec_nofmt body)
  | TL [TI 15; TB bs] =>                                       (* bare segments: parse and reassemble *)
      match parse_segs (S (length bs)) bs with
      | Some ss => TL [TI 0; t_list t_seg ss; t_opt (t_list t_lrec) (reassemble_aux None ss)]
      | None => t_none
      end
  | TL [TI 16; TI seq; TI vrl; TB ident; TL recs; TI cap; TB disk0] =>   (* buffered writer end to end *)
      match map_opt as_lrec recs with
      | Some rs => t_res (fun s => TL [TB (o_disk s); TI (o_total s); t_list TB (rev (o_snaps s))])
                         (write_buffered {| sul_seq := seq; sul_vrl := vrl; sul_id := ident |} rs cap disk0)
      | None => t_bad
      end
  | _ => t_bad
  end.
