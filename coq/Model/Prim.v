(* Prim.v — model of utils/internal/struct_writer.py and RepresentationCode.convert:
   one encoder per representation code the writer uses. Floats are bit patterns (see DESIGN 2.1). *)
From DV Require Export Model.Base.

(* RepresentationCode.X.convert(v) for the struct formats '>B' '>H' '>I' '>b' '>h' '>i' *)
Definition enc_ushort (v : Z) : res bytes := if (0 <=? v) && (v <? 256) then OK [v] else Err EStruct.
Definition enc_unorm (v : Z) : res bytes := if (0 <=? v) && (v <? 65536) then OK (be2 v) else Err EStruct.
Definition enc_ulong (v : Z) : res bytes := if (0 <=? v) && (v <? 4294967296) then OK (be4 v) else Err EStruct.
Definition enc_sshort (v : Z) : res bytes := if (-128 <=? v) && (v <? 128) then OK [v mod 256] else Err EStruct.
Definition enc_snorm (v : Z) : res bytes := if (-32768 <=? v) && (v <? 32768) then OK (be2 (v mod 65536)) else Err EStruct.
Definition enc_slong (v : Z) : res bytes :=
  if (-2147483648 <=? v) && (v <? 2147483648) then OK (be4 (v mod 4294967296)) else Err EStruct.

(* floats: the IEEE bit pattern is the model's value (conversion is CPython's, trusted) *)
Definition enc_fsingl (bits : Z) : res bytes := if (0 <=? bits) && (bits <? 4294967296) then OK (be4 bits) else Err EStruct.
Definition enc_fdoubl (bits : Z) : res bytes :=
  if (0 <=? bits) && (bits <? 18446744073709551616) then OK (be8 bits) else Err EStruct.

Definition UNORM_OFFSET : Z := 32768.
Definition ULONG_OFFSET : Z := 3221225472.

(* write_struct_uvari *)
Definition enc_uvari (v : Z) : res bytes :=
  if v <? 128 then enc_ushort v
  else if v <? 16384 then enc_unorm (v + UNORM_OFFSET)
  else enc_ulong (v + ULONG_OFFSET).

(* str.encode('ascii') *)
Definition enc_chars (s : list Z) : res bytes := if all_ascii s then OK s else Err EAscii.

(* write_struct_ident: USHORT length + ASCII characters *)
Definition enc_ident (s : list Z) : res bytes :=
  do l <- enc_ushort (zlen s); do c <- enc_chars s; OK (l ++ c).

(* write_struct_ascii: UVARI length + ASCII characters *)
Definition enc_ascii (s : list Z) : res bytes :=
  do l <- enc_uvari (zlen s); do c <- enc_chars s; OK (l ++ c).

(* write_struct_status *)
Definition enc_status (v : Z) : res bytes := if (v =? 0) || (v =? 1) then OK [v] else Err EValue.

(* object name: origin (None is the RuntimeError case), copy number, name *)
Record obname := { on_origin : option Z; on_copy : Z; on_name : list Z }.

Definition enc_obname (o : obname) : res bytes :=
  match on_origin o with
  | None => Err ERuntime
  | Some org =>
      do a <- enc_uvari org; do b <- enc_ushort (on_copy o); do c <- enc_ident (on_name o); OK (a ++ b ++ c)
  end.

(* write_struct_objref: set type + obname *)
Definition enc_objref (settype : list Z) (o : obname) : res bytes :=
  do t <- enc_ident settype; do b <- enc_obname o; OK (t ++ b).

(* DTIME: the input is the broken-down UTC time (astimezone is CPython's, trusted) *)
Record dtime := { dt_year : Z; dt_month : Z; dt_day : Z; dt_hour : Z; dt_min : Z; dt_sec : Z; dt_us : Z }.

(* min(round(us / 1000), 999) with Python's round-half-to-even *)
Definition ms_of_us (us : Z) : Z :=
  let q := us / 1000 in let r := us mod 1000 in
  let m := if r <? 500 then q else if 500 <? r then q + 1 else if Z.even q then q else q + 1 in
  Z.min m 999.

Definition enc_dtime (d : dtime) : res bytes :=
  do y <- enc_ushort (dt_year d - 1900);
  do tm <- enc_ushort (32 + dt_month d);
  do dd <- enc_ushort (dt_day d);
  do h <- enc_ushort (dt_hour d);
  do mn <- enc_ushort (dt_min d);
  do s <- enc_ushort (dt_sec d);
  do ms <- enc_unorm (ms_of_us (dt_us d));
  OK (y ++ tm ++ dd ++ h ++ mn ++ s ++ ms).

(* ------------------------------------------------------------------------------------------ *)
(* The standard's decoders (RP66 V1 appendix B), each returning the value and the rest.       *)

Definition dec_ushort (bs : bytes) : option (Z * bytes) :=
  match bs with b :: r => Some (b, r) | _ => None end.
Definition dec_unorm (bs : bytes) : option (Z * bytes) :=
  match bs with a :: b :: r => Some (of_be2 a b, r) | _ => None end.
Definition dec_ulong (bs : bytes) : option (Z * bytes) :=
  match bs with a :: b :: c :: d :: r => Some (of_be4 a b c d, r) | _ => None end.
Definition dec_sshort (bs : bytes) : option (Z * bytes) :=
  match bs with b :: r => Some (if b <? 128 then b else b - 256, r) | _ => None end.
Definition dec_snorm (bs : bytes) : option (Z * bytes) :=
  match bs with a :: b :: r => let v := of_be2 a b in Some (if v <? 32768 then v else v - 65536, r) | _ => None end.
Definition dec_slong (bs : bytes) : option (Z * bytes) :=
  match bs with a :: b :: c :: d :: r =>
    let v := of_be4 a b c d in Some (if v <? 2147483648 then v else v - 4294967296, r) | _ => None end.
Definition dec_fsingl := dec_ulong.
Definition dec_fdoubl (bs : bytes) : option (Z * bytes) :=
  match dec_ulong bs with
  | Some (hi, r) => match dec_ulong r with Some (lo, r') => Some (hi * 4294967296 + lo, r') | None => None end
  | None => None
  end.

(* UVARI: the two top bits of the first byte select the 1-, 2- or 4-byte form *)
Definition dec_uvari (bs : bytes) : option (Z * bytes) :=
  match bs with
  | b :: r =>
      if b <? 128 then Some (b, r)
      else if b <? 192 then
        match r with c :: r' => Some ((b - 128) * 256 + c, r') | _ => None end
      else
        match r with c :: d :: e :: r' => Some (of_be4 (b - 192) c d e, r') | _ => None end
  | [] => None
  end.

Definition take (n : Z) (bs : bytes) : option (bytes * bytes) :=
  if (0 <=? n) && (n <=? zlen bs) then Some (firstnz n bs, skipnz n bs) else None.

(* IDENT: exactly one length byte *)
Definition dec_ident (bs : bytes) : option (list Z * bytes) :=
  match dec_ushort bs with
  | Some (n, r) => match take n r with Some (s, r') => if all_ascii s then Some (s, r') else None | None => None end
  | None => None
  end.

Definition dec_ascii (bs : bytes) : option (list Z * bytes) :=
  match dec_uvari bs with
  | Some (n, r) => match take n r with Some (s, r') => if all_ascii s then Some (s, r') else None | None => None end
  | None => None
  end.

Definition dec_status (bs : bytes) : option (Z * bytes) :=
  match bs with b :: r => if (b =? 0) || (b =? 1) then Some (b, r) else None | _ => None end.

(* decoded object names always carry an origin *)
Definition dec_obname (bs : bytes) : option (obname * bytes) :=
  match dec_uvari bs with
  | Some (org, r) =>
      match dec_ushort r with
      | Some (cp, r') =>
          match dec_ident r' with
          | Some (nm, r'') => Some ({| on_origin := Some org; on_copy := cp; on_name := nm |}, r'')
          | None => None
          end
      | None => None
      end
  | None => None
  end.

Definition dec_objref (bs : bytes) : option ((list Z * obname) * bytes) :=
  match dec_ident bs with
  | Some (t, r) => match dec_obname r with Some (o, r') => Some ((t, o), r') | None => None end
  | None => None
  end.

(* DTIME: year since 1900, tz nibble + month nibble, day, hour, minute, second, milliseconds *)
Record dtime_dec := { dd_year : Z; dd_tz : Z; dd_month : Z; dd_day : Z; dd_hour : Z; dd_min : Z; dd_sec : Z; dd_ms : Z }.
Definition dec_dtime (bs : bytes) : option (dtime_dec * bytes) :=
  match bs with
  | y :: tm :: d :: h :: mn :: s :: m1 :: m2 :: r =>
      Some ({| dd_year := 1900 + y; dd_tz := tm / 16; dd_month := tm mod 16; dd_day := d; dd_hour := h;
               dd_min := mn; dd_sec := s; dd_ms := of_be2 m1 m2 |}, r)
  | _ => None
  end.
