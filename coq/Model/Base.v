(* Base.v — conventions of the model: bytes are Z in 0..255, results carry an error class.
   No proofs in Model/*.v: the model keeps building and running when a proof breaks. *)
From Coq Require Export ZArith List Bool.
Export ListNotations.
Open Scope Z_scope.

Definition bytes := list Z.

(* error classes (only raised-vs-returned is compared with the implementation; the class is informational) *)
Definition EType : Z := 1.     (* TypeError *)
Definition EValue : Z := 2.    (* ValueError *)
Definition ERuntime : Z := 3.  (* RuntimeError *)
Definition EStruct : Z := 4.   (* struct.error *)
Definition EAscii : Z := 5.    (* UnicodeEncodeError *)
Definition EFuel : Z := 9.     (* fuel exhausted: excluded by every theorem *)
Definition EOther : Z := 8.

Inductive res (A : Type) : Type :=
| OK (a : A)
| Err (e : Z).
Arguments OK {A} a.
Arguments Err {A} e.

Definition bind {A B} (r : res A) (f : A -> res B) : res B :=
  match r with OK a => f a | Err e => Err e end.
Notation "'do' x <- r ; k" := (bind r (fun x => k)) (at level 200, x pattern, r at level 100, k at level 200).

Definition zlen {A} (l : list A) : Z := Z.of_nat (length l).

Definition is_byte (b : Z) : bool := (0 <=? b) && (b <? 256).
Definition all_bytes (l : bytes) : bool := forallb is_byte l.

(* big-endian unsigned digits *)
Definition be1 (v : Z) : bytes := [v].
Definition be2 (v : Z) : bytes := [v / 256; v mod 256].
Definition be4 (v : Z) : bytes := [v / 16777216; (v / 65536) mod 256; (v / 256) mod 256; v mod 256].
Definition be8 (v : Z) : bytes := be4 (v / 4294967296) ++ be4 (v mod 4294967296).

Definition of_be2 (a b : Z) : Z := a * 256 + b.
Definition of_be4 (a b c d : Z) : Z := ((a * 256 + b) * 256 + c) * 256 + d.

Definition b2z (b : bool) : Z := if b then 1 else 0.

(* n copies *)
Definition zrepeat {A} (x : A) (n : Z) : list A := repeat x (Z.to_nat n).

(* ASCII text: list of code points; str.encode('ascii') fails on a code point >= 128 *)
Definition is_ascii (c : Z) : bool := (0 <=? c) && (c <? 128).
Definition all_ascii (s : list Z) : bool := forallb is_ascii s.

(* get_ascii_bytes(value, required_length, justify_left) *)
Definition justify (s : list Z) (w : Z) (left : bool) : res bytes :=
  if w <? zlen s then Err EValue
  else if negb (all_ascii s) then Err EAscii
  else let pad := zrepeat 32 (w - zlen s) in
       OK (if left then s ++ pad else pad ++ s).

(* decimal digits of a non-negative number, most significant first (str(n) for n >= 0) *)
Fixpoint dec_digits_aux (fuel : nat) (n : Z) (acc : list Z) : list Z :=
  match fuel with
  | O => acc
  | S f => let acc' := (48 + n mod 10) :: acc in
           if n <? 10 then acc' else dec_digits_aux f (n / 10) acc'
  end.
Definition dec_digits (n : Z) : list Z := dec_digits_aux 40 n [].

Definition firstnz {A} (n : Z) (l : list A) : list A := firstn (Z.to_nat n) l.
Definition skipnz {A} (n : Z) (l : list A) : list A := skipn (Z.to_nat n) l.

Fixpoint list_eqb (a b : list Z) : bool :=
  match a, b with
  | [], [] => true
  | x :: a', y :: b' => (x =? y) && list_eqb a' b'
  | _, _ => false
  end.

Definition nonnil {A} (l : list A) : bool := match l with [] => false | _ => true end.

Fixpoint map_opt {A B} (f : A -> option B) (l : list A) : option (list B) :=
  match l with
  | [] => Some []
  | x :: xs => match f x, map_opt f xs with Some y, Some ys => Some (y :: ys) | _, _ => None end
  end.

Definition slice {A} (a b : Z) (l : list A) : list A := firstnz (b - a) (skipnz a l).

(* pairwise distinct lists of code points *)
Fixpoint distinct (l : list (list Z)) : bool :=
  match l with
  | [] => true
  | x :: r => negb (existsb (list_eqb x) r) && distinct r
  end.

(* list update at an index *)
Fixpoint upd {A} (l : list A) (n : nat) (x : A) : list A :=
  match l, n with
  | [], _ => []
  | _ :: t, O => x :: t
  | h :: t, S k => h :: upd t k x
  end.


(* make_chunked_generator: the (start, stop) row ranges that are loaded, for n rows *)
Fixpoint full_chunks (k : nat) (i c : Z) : list (Z * Z) :=
  match k with O => [] | S k' => (i * c, (i + 1) * c) :: full_chunks k' (i + 1) c end.

Definition chunk_ranges (n : Z) (chunk : option Z) : list (Z * Z) :=
  match chunk with
  | None => [(0, n)]
  | Some c =>
      let q := n / c in let r := n mod c in
      full_chunks (Z.to_nat q) 0 c ++ (if 0 <? r then [(q * c, n)] else [])
  end.

(* rows produced by iterating the generator over `rows` *)
Definition chunked {A} (rows : list A) (chunk : option Z) : list A :=
  concat (map (fun '(a, b) => slice a b rows) (chunk_ranges (zlen rows) chunk)).

