(* EflrReader.v — strict decoder of explicitly formatted records under the RP66 V1 component grammar:
   SET component, template of ATTRIB components, OBJECT components each followed by at most |template| attribute
   components (ATTRIB or ABSATR), nothing left over. It is applied to implementation output. *)
From DV Require Export Model.Eflr.

Inductive dval :=
| DInt (z : Z) | DBits (b : Z) | DText (s : list Z) | DDT (d : dtime_dec) | DName (o : obname) | DRef (t : list Z) (o : obname).

Definition omap {A B C} (f : A -> B) (r : option (A * C)) : option (B * C) :=
  match r with Some (a, c) => Some (f a, c) | None => None end.

(* one value of representation code c (the codes the writer can emit; UNITS = 27 and ORIGIN = 22 read like IDENT / UVARI) *)
Definition dec_val (c : Z) (bs : bytes) : option (dval * bytes) :=
  if c =? 2 then omap DBits (dec_fsingl bs)
  else if c =? 7 then omap DBits (dec_fdoubl bs)
  else if c =? 12 then omap DInt (dec_sshort bs)
  else if c =? 13 then omap DInt (dec_snorm bs)
  else if c =? 14 then omap DInt (dec_slong bs)
  else if c =? 15 then omap DInt (dec_ushort bs)
  else if c =? 16 then omap DInt (dec_unorm bs)
  else if c =? 17 then omap DInt (dec_ulong bs)
  else if c =? 18 then omap DInt (dec_uvari bs)
  else if c =? 19 then omap DText (dec_ident bs)
  else if c =? 20 then omap DText (dec_ascii bs)
  else if c =? 21 then omap DDT (dec_dtime bs)
  else if c =? 22 then omap DInt (dec_uvari bs)
  else if c =? 23 then omap DName (dec_obname bs)
  else if c =? 24 then omap (fun '(t, o) => DRef t o) (dec_objref bs)
  else if c =? 26 then omap DInt (dec_status bs)
  else if c =? 27 then omap DText (dec_ident bs)
  else None.

Fixpoint dec_vals (c : Z) (n : nat) (bs : bytes) : option (list dval * bytes) :=
  match n with
  | O => Some ([], bs)
  | S k => match dec_val c bs with
           | Some (v, r) => match dec_vals c k r with Some (vs, r') => Some (v :: vs, r') | None => None end
           | None => None
           end
  end.

(* characteristics of an attribute: count, code, units, value (None = no value given) *)
Record dattr := { d_count : Z; d_code : Z; d_units : option (list Z); d_values : option (list dval) }.
Record tattr := { t_label : list Z; t_attr : dattr }.

Definition bit (d w : Z) : bool := Z.odd (d / w).

(* the optional C R U V fields of an attribute component, with defaults *)
Definition dec_chars (d : Z) (dflt : dattr) (bs : bytes) : option (dattr * bytes) :=
  match (if bit d 8 then dec_uvari bs else Some (d_count dflt, bs)) with
  | None => None
  | Some (cnt, r1) =>
      match (if bit d 4 then dec_ushort r1 else Some (d_code dflt, r1)) with
      | None => None
      | Some (code, r2) =>
          if negb ((1 <=? code) && (code <=? 27)) then None else
          match (if bit d 2 then omap Some (dec_ident r2) else Some (d_units dflt, r2)) with
          | None => None
          | Some (units, r3) =>
              if bit d 1 then
                if cnt <=? 0 then None                       (* a value announced with nothing to read *)
                else match dec_vals code (Z.to_nat cnt) r3 with
                     | Some (vs, r4) => Some ({| d_count := cnt; d_code := code; d_units := units; d_values := Some vs |}, r4)
                     | None => None
                     end
              else Some ({| d_count := cnt; d_code := code; d_units := units; d_values := None |}, r3)
          end
      end
  end.

Definition global_default : dattr := {| d_count := 1; d_code := 19; d_units := None; d_values := None |}.

(* a template component: ATTRIB (role 001) or INVATR (010), label mandatory *)
Definition dec_tattr (bs : bytes) : option (tattr * bytes) :=
  match bs with
  | d :: r =>
      if negb (is_byte d) then None
      else if negb ((d / 32 =? 1) || (d / 32 =? 2)) then None
      else if negb (bit d 16) then None
      else match dec_ident r with
           | Some (l, r1) =>
               match dec_chars d global_default r1 with
               | Some (a, r2) => Some ({| t_label := l; t_attr := a |}, r2)
               | None => None
               end
           | None => None
           end
  | [] => None
  end.

Definition role (d : Z) : Z := d / 32.

Fixpoint dec_template (fuel : nat) (bs : bytes) : option (list tattr * bytes) :=
  match fuel with
  | O => None
  | S f =>
      match bs with
      | d :: _ =>
          if (role d =? 1) || (role d =? 2) then
            match dec_tattr bs with
            | Some (t, r) => match dec_template f r with Some (ts, r') => Some (t :: ts, r') | None => None end
            | None => None
            end
          else Some ([], bs)
      | [] => Some ([], bs)
      end
  end.

(* an attribute component inside an object: ABSATR (byte 00) or ATTRIB without label *)
Definition dec_oattr (dflt : dattr) (bs : bytes) : option (option dattr * bytes) :=
  match bs with
  | d :: r =>
      if negb (is_byte d) then None
      else if d =? 0 then Some (None, r)
      else if negb (role d =? 1) then None
      else if bit d 16 then None
      else omap Some (dec_chars d dflt r)
  | [] => None
  end.

(* at most one component per template attribute; stops at the next OBJECT component or at the end *)
Fixpoint dec_oattrs (tmpl : list tattr) (bs : bytes) : option (list (option dattr) * bytes) :=
  match tmpl with
  | [] => Some ([], bs)
  | t :: ts =>
      match bs with
      | [] => Some ([], bs)
      | d :: _ =>
          if role d =? 3 then Some ([], bs)
          else match dec_oattr (t_attr t) bs with
               | Some (a, r) => match dec_oattrs ts r with Some (az, r') => Some (a :: az, r') | None => None end
               | None => None
               end
      end
  end.

Record dobj := { do_name : obname; do_attrs : list (option dattr) }.

Fixpoint dec_objs (fuel : nat) (tmpl : list tattr) (bs : bytes) : option (list dobj) :=
  match fuel with
  | O => None
  | S f =>
      match bs with
      | [] => Some []
      | d :: r =>
          if negb (d =? 112) then None                        (* OBJECT component with a name, nothing else *)
          else match dec_obname r with
               | Some (o, r1) =>
                   match dec_oattrs tmpl r1 with
                   | Some (az, r2) =>
                       match dec_objs f tmpl r2 with
                       | Some os => Some ({| do_name := o; do_attrs := az |} :: os)
                       | None => None
                       end
                   | None => None
                   end
               | None => None
               end
      end
  end.

Record dset := { ds_type : list Z; ds_name : option (list Z); ds_tmpl : list tattr; ds_objs : list dobj }.

Definition dec_set (bs : bytes) : option dset :=
  match bs with
  | d :: r =>
      if negb ((d =? 240) || (d =? 248)) then None           (* SET with type, optional name *)
      else match dec_ident r with
           | Some (ty, r1) =>
               match (if d =? 248 then omap Some (dec_ident r1) else Some (None, r1)) with
               | Some (nm, r2) =>
                   match dec_template (S (length r2)) r2 with
                   | Some (tm, r3) =>
                       match dec_objs (S (length r3)) tm r3 with
                       | Some os => Some {| ds_type := ty; ds_name := nm; ds_tmpl := tm; ds_objs := os |}
                       | None => None
                       end
                   | None => None
                   end
               | None => None
               end
           | None => None
           end
  | [] => None
  end.

(* template discipline: labels non-empty and pairwise distinct *)
Definition template_ok (d : dset) : bool :=
  forallb (fun t => nonnil (t_label t)) (ds_tmpl d) && distinct (map t_label (ds_tmpl d)).

(* C04 decider for one EFLR body of implementation output *)
Definition check_eflr (bs : bytes) : bool :=
  match dec_set bs with
  | Some d => template_ok d && nonnil (ds_objs d)
  | None => false
  end.
