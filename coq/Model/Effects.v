(* Effects.v — ownership abstraction of the numpy data path (C19, partial): buffers are owned by the caller or freshly
   allocated by the library; the data path of every source kind is a list of effect steps. numpy's copy-versus-view
   behaviour of each call is ASSUMED (trusted base), the abstraction of the code into steps is by hand. *)
From DV Require Export Model.Base.

Inductive owner := Caller | Fresh.
Record buffer := { bf_owner : owner; bf_data : list Z }.
Definition store := list buffer.

Inductive eff :=
| EView (src : nat)                   (* slicing / field access / h5py read of a Caller array: an alias, nothing written *)
| ECopyOut (src : nat)                (* astype / np.array(...): a fresh buffer holding src's data *)
| EAlloc (n : nat)                    (* np.zeros: a fresh buffer *)
| EWriteInto (dst src : nat)          (* chunk[key] = data[idx]: writes src's data into dst *)
| EToBytes (src : nat)                (* tobytes(): fresh bytes *)
| EMergeDict.                         (* self._data_dict | data: a new dict, the caller's dict untouched *)

Definition buf_at (s : store) (i : nat) : buffer := nth i s {| bf_owner := Fresh; bf_data := [] |}.

(* a step is admissible when every write goes into a library-allocated buffer *)
Definition step_ok (s : store) (e : eff) : bool :=
  match e with
  | EWriteInto dst _ => match bf_owner (buf_at s dst) with Fresh => Nat.ltb dst (length s) | Caller => false end
  | _ => true
  end.

Definition apply (s : store) (e : eff) : store :=
  match e with
  | EView _ | EMergeDict => s
  | ECopyOut src | EToBytes src => s ++ [{| bf_owner := Fresh; bf_data := bf_data (buf_at s src) |}]
  | EAlloc n => s ++ [{| bf_owner := Fresh; bf_data := repeat 0 n |}]
  | EWriteInto dst src => upd s dst {| bf_owner := bf_owner (buf_at s dst); bf_data := bf_data (buf_at s src) |}
  end.

Fixpoint run_effects (s : store) (p : list eff) : option store :=
  match p with
  | [] => Some s
  | e :: r => if step_ok s e then run_effects (apply s e) r else None
  end.

Definition caller_part (s : store) : list (list Z) :=
  map bf_data (filter (fun b => match bf_owner b with Caller => true | Fresh => false end) s).

(* the pipelines, abstracted from the code; buffer 0.. are the caller's arrays, fresh buffers are appended *)
(* SourceDataWrapper.load_chunk: chunk = np.zeros(n); for every channel: chunk[key] = source[loc][idx]; rows -> tobytes *)
Definition pipeline_generic (n_caller : nat) : list eff :=
  [EMergeDict; EAlloc 8] ++ concat (map (fun k => [EView k; EWriteInto n_caller k]) (seq 0 n_caller)) ++ [ECopyOut n_caller; EToBytes (S n_caller)].
(* NumpyDataWrapper direct path: a view of the caller's structured array, converted slot by slot *)
Definition pipeline_direct : list eff := [EView 0; ECopyOut 0; EToBytes 1].
(* FrameItem._compute_spacing_and_direction: astype(float64) copy, np.diff / unique on the copy *)
Definition pipeline_index : list eff := [EView 0; ECopyOut 0; ECopyOut 1].
