(* Eflr.v — model of Attribute.get_as_bytes (template and body), EFLRItem.make_item_body_bytes,
   EFLRSet._make_body_bytes and the hand-written FILE-HEADER components. The attribute record is the
   Python-side state at the moment the bytes are produced (after the write-time defaults). *)
From DV Require Export Model.Prim.

(* a Python value stored in an attribute *)
Inductive aval :=
| VInt (z : Z)                                (* int *)
| VBool (b : bool)                            (* bool *)
| VFloat (bits : Z)                           (* float / numpy.float64: IEEE binary64 bit pattern *)
| VStr (s : list Z)                           (* str: code points *)
| VDT (d : dtime)                             (* datetime: UTC broken-down fields *)
| VRef (settype : list Z) (o : obname)        (* an EFLRItem: its set type and current identity *)
| VOther.                                     (* anything else *)

(* nested value lists *)
Inductive nval := NLeaf (v : aval) | NNode (l : list nval).

Inductive pval := PNone | PScalar (v : aval) | PList (l : list nval).

Fixpoint flatten_n (n : nval) : list aval :=
  match n with
  | NLeaf v => [v]
  | NNode l => (fix go (l : list nval) : list aval := match l with [] => [] | x :: r => flatten_n x ++ go r end) l
  end.
Definition flatten (l : list nval) : list aval := flatten_n (NNode l).

Record attr := {
  a_label : list Z;
  a_mv : bool;                    (* multivalued *)
  a_md : bool;                    (* multidimensional *)
  a_rc0 : option Z;               (* explicit or class-default representation code *)
  a_valid : list Z;               (* _valid_repr_codes *)
  a_reftext : bool;               (* EFLROrTextAttribute: its own code guessing *)
  a_units : option (list Z);      (* None, or the units string (possibly empty) *)
  a_value : pval
}.

(* exact conversion int -> binary64 bit pattern for |z| < 2^53 (struct.pack('>d', int)) *)
Definition int_to_f64 (z : Z) : res Z :=
  if z =? 0 then OK 0
  else
    let a := Z.abs z in
    if 9007199254740992 <=? a then Err EOther        (* rounding: outside the modelled domain *)
    else
      let e := Z.log2 a in
      let mant := a * 2 ^ (52 - e) - 4503599627370496 in
      OK ((if z <? 0 then 9223372036854775808 else 0) + (e + 1023) * 4503599627370496 + mant).

Definition int_of_aval (v : aval) : option Z :=
  match v with VInt z => Some z | VBool b => Some (b2z b) | _ => None end.

(* str(int) *)
Definition str_of_int (z : Z) : list Z := if z <? 0 then 45 :: dec_digits (- z) else dec_digits z.

(* write_struct(rc, value) *)
Definition enc_val (rc : option Z) (v : aval) : res bytes :=
  match rc with
  | None => Err EOther
  | Some c =>
      let intcode f := match int_of_aval v with Some z => f z | None => Err EStruct end in
      if c =? 12 then intcode enc_sshort
      else if c =? 13 then intcode enc_snorm
      else if c =? 14 then intcode enc_slong
      else if c =? 15 then intcode enc_ushort
      else if c =? 16 then intcode enc_unorm
      else if c =? 17 then intcode enc_ulong
      else if c =? 18 then intcode enc_uvari
      else if c =? 26 then intcode enc_status
      else if c =? 7 then
        match v with
        | VFloat b => enc_fdoubl b
        | VInt z => do b <- int_to_f64 z; enc_fdoubl b
        | VBool b => do b' <- int_to_f64 (b2z b); enc_fdoubl b'
        | _ => Err EStruct
        end
      else if c =? 19 then
        match v with VStr s => enc_ident s | VInt z => enc_ident (str_of_int z) | _ => Err EOther end
      else if c =? 20 then
        match v with VStr s => enc_ascii s | VInt z => enc_ascii (str_of_int z) | _ => Err EOther end
      else if c =? 21 then match v with VDT d => enc_dtime d | _ => Err EOther end
      else if c =? 23 then match v with VRef _ o => enc_obname o | _ => Err EType end
      else if c =? 24 then match v with VRef t o => enc_objref t o | _ => Err EOther end
      else Err EOther
  end.

(* ReprCodeConverter._determine_repr_code_single *)
Definition infer_single (v : aval) : option Z :=
  match v with
  | VInt _ => Some 14 | VFloat _ => Some 7 | VStr _ => Some 20 | VDT _ => Some 21
  | _ => None
  end.

Definition is_float_code c := c <=? 11.
Definition is_sint_code c := (12 <=? c) && (c <=? 14).
Definition is_uint_code c := (15 <=? c) && (c <=? 18).
Definition is_numeric_code c := c <=? 18.

(* ReprCodeConverter._determine_repr_code_multiple *)
Definition infer_multiple (vs : list aval) : option Z :=
  match map_opt infer_single vs with
  | None => None
  | Some [] => None
  | Some (c :: cs) =>
      if forallb (Z.eqb c) cs then Some c
      else if negb (forallb is_numeric_code (c :: cs)) then None
      else if existsb is_float_code (c :: cs) then Some 7
      else if forallb is_float_code (c :: cs) || forallb is_sint_code (c :: cs) || forallb is_uint_code (c :: cs)
      then Some (fold_right Z.max c cs)
      else if existsb is_sint_code (c :: cs) then Some 14
      else None
  end.

Definition leaves_only (l : list nval) : option (list aval) :=
  map_opt (fun n => match n with NLeaf v => Some v | NNode _ => None end) l.

(* Attribute._guess_repr_code / EFLROrTextAttribute._guess_repr_code; Err = the RuntimeError cases *)
Definition guess_rc (a : attr) : res (option Z) :=
  if a_reftext a then
    match a_value a with
    | PNone => OK None
    | PScalar (VRef _ _) => OK (Some 23)
    | PScalar (VStr _) => OK (Some 20)
    | _ => Err ERuntime
    end
  else
    match a_value a with
    | PNone => OK None
    | PScalar v => OK (infer_single v)
    | PList l =>
        match l with
        | [] => OK (if a_mv a then None else infer_multiple [])
        | _ => if a_md a then OK (infer_multiple (flatten l))
               else match leaves_only l with Some vs => OK (infer_multiple vs) | None => OK None end
        end
    end.

(* Attribute.representation_code *)
Definition attr_rc (a : attr) : res (option Z) :=
  match a_rc0 a with
  | Some c => OK (Some c)
  | None =>
      do g <- guess_rc a;
      match g with
      | Some c => if existsb (Z.eqb c) (a_valid a) then OK (Some c) else Err ERuntime
      | None => OK None
      end
  end.

(* Attribute.count *)
Definition attr_count (a : attr) : option Z :=
  if negb (a_mv a) then Some 1
  else match a_value a with
       | PNone => None
       | PList l => Some (zlen (flatten l))
       | PScalar _ => Some 1
       end.

Fixpoint enc_vals (rc : option Z) (vs : list aval) : res bytes :=
  match vs with
  | [] => OK []
  | v :: r => do a <- enc_val rc v; do b <- enc_vals rc r; OK (a ++ b)
  end.

Definition values_of (a : attr) : list aval :=
  match a_value a with PNone => [] | PScalar v => [v] | PList l => flatten l end.

(* Attribute.get_as_bytes(for_template=False): descriptor 001 L C R U V *)
Definition enc_attr_body (a : attr) : res bytes :=
  let cnt := attr_count a in
  let wcount := match cnt with Some n => negb (n =? 1) | None => false end in
  do cb <- (if wcount then enc_uvari (match cnt with Some n => n | None => 0 end) else OK []);
  do rc <- attr_rc a;
  do rb <- (match rc with Some c => enc_ushort c | None => OK [] end);
  let wunits := match a_units a with Some (_ :: _) => true | _ => false end in
  do ub <- (match a_units a with Some (c :: u) => enc_ident (c :: u) | _ => OK [] end);
  let vs := values_of a in
  let wval := nonnil vs in
  do vb <- enc_vals rc vs;
  OK ([32 + 8 * b2z wcount + 4 * b2z (match rc with Some _ => true | None => false end) + 2 * b2z wunits + b2z wval]
      ++ cb ++ rb ++ ub ++ vb).

(* EFLRItem._make_attrs_bytes: an attribute whose value is None is the ABSATR byte *)
Definition enc_attr_obj (a : attr) : res bytes :=
  match a_value a with PNone => OK [0] | _ => enc_attr_body a end.

(* Attribute.get_as_bytes(for_template=True) *)
Definition enc_attr_tmpl (a : attr) : res bytes :=
  match a_label a with
  | [] => OK [32]
  | l => do lb <- enc_ident l; OK (48 :: lb)
  end.

Record obj := { o_name : obname; o_attrs : list attr }.

Fixpoint enc_list {A} (f : A -> res bytes) (l : list A) : res bytes :=
  match l with
  | [] => OK []
  | x :: r => do a <- f x; do b <- enc_list f r; OK (a ++ b)
  end.

(* EFLRItem.make_item_body_bytes: b'p' + obname + attributes *)
Definition enc_obj (o : obj) : res bytes :=
  do n <- enc_obname (o_name o); do ab <- enc_list enc_attr_obj (o_attrs o); OK (112 :: n ++ ab).

Record eset := { e_type : list Z; e_name : option (list Z); e_objs : list obj }.

(* EFLRSet._make_set_component_bytes *)
Definition enc_set_comp (s : eset) : res bytes :=
  do t <- enc_ident (e_type s);
  match e_name s with
  | Some (c :: n) => do nb <- enc_ident (c :: n); OK (248 :: t ++ nb)
  | _ => OK (240 :: t)
  end.

(* EFLRSet._make_body_bytes: empty set -> empty body (no record); template from the first item *)
Definition enc_set (s : eset) : res bytes :=
  match e_objs s with
  | [] => OK []
  | o0 :: _ =>
      do sc <- enc_set_comp s;
      do tb <- enc_list enc_attr_tmpl (o_attrs o0);
      do ob <- enc_list enc_obj (e_objs s);
      OK (sc ++ tb ++ ob)
  end.

(* FILE-HEADER: template "34 <label> 14" twice, object attributes "21 0A <10 chars>" "21 41 <65 chars>" *)
Definition str_SEQNUM : list Z := [83;69;81;85;69;78;67;69;45;78;85;77;66;69;82].   (* SEQUENCE-NUMBER *)
Definition str_ID : list Z := [73; 68].
Definition str_FILE_HEADER : list Z := [70;73;76;69;45;72;69;65;68;69;82].

Definition enc_fileheader (o : obname) (seqnum : Z) (hid : list Z) : res bytes :=
  do t <- enc_ident str_FILE_HEADER;
  do l1 <- enc_ident str_SEQNUM;
  do l2 <- enc_ident str_ID;
  do n <- enc_obname o;
  do s <- (if seqnum <? 0 then Err EOther else justify (dec_digits seqnum) 10 false);
  do h <- justify hid 65 true;
  OK (240 :: t ++ (52 :: l1 ++ [20]) ++ (52 :: l2 ++ [20]) ++ (112 :: n) ++ (33 :: 10 :: s) ++ (33 :: 65 :: h)).
