(* Builder.v — the public API as a state machine: DLISFile / LogicalFile registries (dict insertion order is state),
   add_* calls, attribute assignment, origin numbering and back-fill, copy numbers, no-format data.
   Effects are ordered as in the code (DESIGN appendix A.2); a rejected call returns the state it leaves behind. *)
From DV Require Export Model.Convert Model.Data.

(* type indices = order of Gen.Schema.g_schema (checked in GenFacts/BuilderOK.v) *)
Definition T_ORIGIN := 0%nat. Definition T_AXIS := 1%nat. Definition T_LONGNAME := 2%nat. Definition T_CHANNEL := 3%nat.
Definition T_FRAME := 4%nat. Definition T_ZONE := 5%nat. Definition T_PARAMETER := 6%nat. Definition T_EQUIPMENT := 7%nat.
Definition T_TOOL := 8%nat. Definition T_COMPUTATION := 9%nat. Definition T_PROCESS := 10%nat. Definition T_CALMEAS := 11%nat.
Definition T_CALCOEF := 12%nat. Definition T_CALIBRATION := 13%nat. Definition T_GROUP := 14%nat. Definition T_SPLICE := 15%nat.
Definition T_PATH := 16%nat. Definition T_WELLREF := 17%nat. Definition T_MESSAGE := 18%nat. Definition T_COMMENT := 19%nat.
Definition T_NOFORMAT := 20%nat.

Definition oname := option (list Z).
Definition oname_eqb (a b : oname) : bool :=
  match a, b with None, None => true | Some x, Some y => list_eqb x y | _, _ => false end.

(* per-row facts of a data set: dtype code, per-row shape, number of rows *)
Record chdata := { cd_code : Z; cd_shape : list Z; cd_rows : Z }.

Record item := {
  i_ty : nat; i_set : nat; i_name : list Z; i_origin : option Z; i_copy : Z;
  i_attrs : list (spv * option (list Z));        (* value and units, in schema order *)
  i_dataset : option (list Z);                   (* ChannelItem._dataset_name *)
  i_cast : option Z                              (* ChannelItem cast dtype (code) *)
}.
Record sset := { s_ty : nat; s_name : oname; s_items : list nat }.

(* EFLRSetsDict: class -> (set name -> set), both insertion ordered *)
Definition reg := list (nat * list (oname * nat)).

Inductive payload_in := PayBytes (b : bytes) | PayText (s : list Z) | PayOther.

Record lfile := {
  l_hid : list Z; l_seq : Z; l_ident : list Z; l_fh_origin : option Z;
  l_reg : reg;
  l_nofmt : list (raw * payload_in);             (* (object as given, payload), in call order *)
  l_data : list (list Z * chdata)                (* LogicalFile._data_dict: dataset name -> array facts *)
}.

Record bstate := { b_items : list item; b_sets : list sset; b_phys : reg; b_lfs : list lfile }.

Definition b_init : bstate := {| b_items := []; b_sets := []; b_phys := []; b_lfs := [] |}.

(* ---- registries ---- *)
Fixpoint reg_lookup (r : reg) (k : nat) : list (oname * nat) :=
  match r with [] => [] | (k', d) :: r' => if Nat.eqb k k' then d else reg_lookup r' k end.
Fixpoint dict_find (d : list (oname * nat)) (n : oname) : option nat :=
  match d with [] => None | (n', v) :: d' => if oname_eqb n n' then Some v else dict_find d' n end.
Definition reg_find (r : reg) (k : nat) (n : oname) : option nat := dict_find (reg_lookup r k) n.
Fixpoint reg_insert (r : reg) (k : nat) (n : oname) (sid : nat) : reg :=
  match r with
  | [] => [(k, [(n, sid)])]
  | (k', d) :: r' => if Nat.eqb k k' then (k', d ++ [(n, sid)]) :: r' else (k', d) :: reg_insert r' k n sid
  end.

Definition set_at (st : bstate) (sid : nat) : sset := nth sid (b_sets st) {| s_ty := 0; s_name := None; s_items := [] |}.
Definition dummy_item : item :=
  {| i_ty := 0; i_set := 0; i_name := []; i_origin := None; i_copy := 0; i_attrs := []; i_dataset := None; i_cast := None |}.
Definition item_at (st : bstate) (i : nat) : item := nth i (b_items st) dummy_item.
Definition lf_at (st : bstate) (l : nat) : option lfile := nth_error (b_lfs st) l.

Definition set_lf (st : bstate) (l : nat) (f : lfile) : bstate :=
  {| b_items := b_items st; b_sets := b_sets st; b_phys := b_phys st; b_lfs := upd (b_lfs st) l f |}.

(* EFLRSetsDict.get_or_make_set on the physical registry *)
Definition get_or_make_set (st : bstate) (ty : nat) (n0 : oname) : bstate * nat :=
  let n := match n0 with Some [] => None | _ => n0 end in       (* an empty set name is no set name *)
  match reg_find (b_phys st) ty n with
  | Some sid => (st, sid)
  | None =>
      let sid := length (b_sets st) in
      ({| b_items := b_items st; b_sets := b_sets st ++ [{| s_ty := ty; s_name := n; s_items := [] |}];
          b_phys := reg_insert (b_phys st) ty n sid; b_lfs := b_lfs st |}, sid)
  end.

(* a registered set WITHOUT items (left behind by an add_* call that raised) has no position among the sets of the logical
   file yet: try_add_set drops it from the registry and enters the set anew, so that it takes its position with its first
   item — as if the rejected call had never been made *)
Definition set_empty (st : bstate) (sid : nat) : bool := match s_items (set_at st sid) with [] => true | _ => false end.
Fixpoint dict_remove (d : list (oname * nat)) (n : oname) : list (oname * nat) :=
  match d with [] => [] | (n', v) :: d' => if oname_eqb n n' then d' else (n', v) :: dict_remove d' n end.
Fixpoint reg_remove (r : reg) (k : nat) (n : oname) : reg :=
  match r with
  | [] => []
  | (k', d) :: r' => if Nat.eqb k k' then (match dict_remove d n with [] => r' | d' => (k', d') :: r' end)
                     else (k', d) :: reg_remove r' k n
  end.
Definition forget_empty (st : bstate) (r : reg) (k : nat) (n : oname) : reg :=
  match reg_find r k n with
  | Some sid => if set_empty st sid then reg_remove r k n else r
  | None => r
  end.

(* a set type whose registered sets are all without items has no position either: it is moved to the end *)
Definition class_all_empty (st : bstate) (d : list (oname * nat)) : bool := forallb (fun ns => set_empty st (snd ns)) d.
Definition reg_drop_class (r : reg) (k : nat) : reg := filter (fun kd => negb (Nat.eqb k (fst kd))) r.
Definition reposition_class (st : bstate) (r : reg) (k : nat) : reg :=
  match reg_lookup r k with
  | [] => r
  | d => if class_all_empty st d then reg_drop_class r k ++ [(k, d)] else r
  end.

(* EFLRSetsDict.try_add_set on a logical file's registry (st: the state in which "holds no items" is judged) *)
Definition try_add_set (st : bstate) (f : lfile) (ty : nat) (n0 : oname) (sid : nat) : lfile :=
  let n := match n0 with Some [] => None | _ => n0 end in       (* the set's own (normalised) name *)
  let r := forget_empty st (l_reg f) ty n in
  match reg_find r ty n with
  | Some _ => f
  | None => {| l_hid := l_hid f; l_seq := l_seq f; l_ident := l_ident f; l_fh_origin := l_fh_origin f;
               l_reg := reg_insert (reposition_class st r ty) ty n sid; l_nofmt := l_nofmt f; l_data := l_data f |}
  end.

(* get_all_items_for_set_type on a registry *)
Definition reg_items (st : bstate) (r : reg) (ty : nat) : list nat :=
  concat (map (fun '(_, sid) => s_items (set_at st sid)) (reg_lookup r ty)).

Definition lf_origins (st : bstate) (f : lfile) : list nat := reg_items st (l_reg f) T_ORIGIN.
(* LogicalFile.default_origin_reference *)
Definition default_origin (st : bstate) (f : lfile) : option Z :=
  match lf_origins st f with i :: _ => i_origin (item_at st i) | [] => None end.

(* ---- attribute state as Eflr.attr (for the current-code test and for writing) ---- *)
Definition ident_of (st : bstate) (i : nat) : list Z * obname :=
  let it := item_at st i in
  (td_settype (tdef_at (i_ty it)), {| on_origin := i_origin it; on_copy := i_copy it; on_name := i_name it |}).

Definition to_aval (st : bstate) (v : sval) : aval :=
  match v with
  | SInt z => VInt z | SBool b => VBool b | SFloat b => VFloat b | SStr s => VStr s | SDT d => VDT d
  | SItem i => let '(t, o) := ident_of st i in VRef t o
  | SOther => VOther
  end.
Fixpoint to_nval (st : bstate) (n : snv) : nval :=
  match n with
  | SLeaf v => NLeaf (to_aval st v)
  | SNode l => NNode ((fix go (l : list snv) := match l with [] => [] | x :: r => to_nval st x :: go r end) l)
  end.
Definition to_pval (st : bstate) (p : spv) : pval :=
  match p with SPNone => PNone | SPScalar v => PScalar (to_aval st v) | SPList l => PList (map (to_nval st) l) end.
Definition to_attr (st : bstate) (ad : adef) (vu : spv * option (list Z)) : attr :=
  {| a_label := ad_label ad; a_mv := ad_mv ad; a_md := ad_md ad; a_rc0 := ad_rc0 ad; a_valid := ad_valid ad;
     a_reftext := ad_kind ad =? K_REFTEXT; a_units := snd vu; a_value := to_pval st (fst vu) |}.

Definition cur_is_int (st : bstate) (ad : adef) (vu : spv * option (list Z)) : bool :=
  match attr_rc (to_attr st ad vu) with OK (Some c) => is_int_code c | _ => false end.
Definition cur_is_set (vu : spv * option (list Z)) : bool := match fst vu with SPNone => false | _ => true end.

Definition item_ty_of (st : bstate) (i : nat) : option nat :=
  match nth_error (b_items st) i with Some it => Some (i_ty it) | None => None end.

(* ---- assignment to one attribute part ---- *)
Inductive praw := PVal (r : raw) | PSetup (v : option raw) (u : option raw).

Definition dummy_adef : adef :=
  {| ad_name := []; ad_label := []; ad_kind := K_REPRCODE; ad_mv := false; ad_md := false; ad_rc0 := None; ad_valid := [];
     ad_units := false; ad_ref := -1; ad_conv := 0; ad_int_only := false; ad_allow_float := false |}.

Definition set_value (hc : bool) (st : bstate) (it : item) (idx : nat) (r : raw) : res item :=
  let ad := nth idx (td_attrs (tdef_at (i_ty it))) dummy_adef in
  let cur := nth idx (i_attrs it) (SPNone, None) in
  do v <- convert_value (conv_elem hc (item_ty_of st) ad (cur_is_int st ad cur) (cur_is_set cur)) ad r;
  OK {| i_ty := i_ty it; i_set := i_set it; i_name := i_name it; i_origin := i_origin it; i_copy := i_copy it;
        i_attrs := upd (i_attrs it) idx (v, snd cur); i_dataset := i_dataset it; i_cast := i_cast it |}.

Definition set_units (hc : bool) (st : bstate) (it : item) (idx : nat) (r : raw) : res item :=
  let ad := nth idx (td_attrs (tdef_at (i_ty it))) dummy_adef in
  let cur := nth idx (i_attrs it) (SPNone, None) in
  do u <- convert_units hc ad r;
  OK {| i_ty := i_ty it; i_set := i_set it; i_name := i_name it; i_origin := i_origin it; i_copy := i_copy it;
        i_attrs := upd (i_attrs it) idx (fst cur, u); i_dataset := i_dataset it; i_cast := i_cast it |}.

(* EFLRItem.set_attributes: keyword -> attribute index resolved by the harness from the add_* method's constructor call *)
Fixpoint set_attributes (hc : bool) (st : bstate) (it : item) (kw : list (nat * praw)) : res item :=
  match kw with
  | [] => OK it
  | (idx, p) :: rest =>
      do it1 <- (match p with
                 | PVal r => set_value hc st it idx r
                 | PSetup v u =>
                     do a <- (match v with Some r => set_value hc st it idx r | None => OK it end);
                     (match u with Some r => set_units hc st a idx r | None => OK a end)
                 end);
      set_attributes hc st it1 rest
  end.

(* ---- operations ---- *)
Inductive outcome := Accepted (created : option nat) | Rejected (e : Z).

Definition same_name_count (st : bstate) (sid : nat) (n : list Z) : Z :=
  zlen (filter (fun i => list_eqb (i_name (item_at st i)) n) (s_items (set_at st sid))).

Definition register (st : bstate) (sid : nat) (it : item) : bstate :=
  let iid := length (b_items st) in
  let s := set_at st sid in
  {| b_items := b_items st ++ [it];
     b_sets := upd (b_sets st) sid {| s_ty := s_ty s; s_name := s_name s; s_items := s_items s ++ [iid] |};
     b_phys := b_phys st; b_lfs := b_lfs st |}.

(* the part common to every add_*: sets, origin, item construction. `origin_arg` is the origin_reference argument.
   Returns the state left behind and the outcome; on rejection the sets created stay, no item is registered. *)
Definition add_common (hc : bool) (st : bstate) (l : nat) (ty : nat) (name : raw) (sn : oname) (origin_arg : raw)
           (origin_dflt : bstate -> lfile -> option Z)
           (kw : list (nat * praw)) (ds : option (list Z)) (cast : option Z) : bstate * outcome :=
  match lf_at st l with
  | None => (st, Rejected EOther)
  | Some f =>
      let '(st1, sid) := get_or_make_set st ty sn in
      let f1 := try_add_set st1 f ty sn sid in
      let st2 := set_lf st1 l f1 in
      (* origin_reference or default: a falsy argument (None, 0) means default *)
      let org : res (option Z) :=
        match origin_arg with
        | RNone | RInt 0 | RBool false => OK (origin_dflt st2 f1)
        | RInt z => OK (Some z)
        | RBool true => OK (Some 1)
        | RStr [] _ | RList [] => OK (origin_dflt st2 f1)
        | _ => Err EType
        end in
      match name with
      | RStr nm _ =>
          if hc && negb (hc_string nm) then (st2, Rejected EValue)
          else
            match org with
            | Err e => (st2, Rejected e)
            | OK o =>
                let nattrs := length (td_attrs (tdef_at ty)) in
                let it0 := {| i_ty := ty; i_set := sid; i_name := nm; i_origin := o; i_copy := same_name_count st2 sid nm;
                              i_attrs := repeat (SPNone, None) nattrs; i_dataset := ds; i_cast := cast |} in
                match set_attributes hc st2 it0 kw with
                | OK it => (register st2 sid it, Accepted (Some (length (b_items st2))))
                | Err e => (st2, Rejected e)
                end
            end
      | _ => (st2, Rejected EType)
      end
  end.

Definition set_item (st : bstate) (i : nat) (it : item) : bstate :=
  {| b_items := upd (b_items st) i it; b_sets := b_sets st; b_phys := b_phys st; b_lfs := b_lfs st |}.

(* LogicalFile.next_available_origin_ref *)
Fixpoint bump (fuel : nat) (n : Z) (refs : list (option Z)) : Z :=
  match fuel with
  | O => n
  | S f => if existsb (fun r => match r with Some x => x =? n | None => false end) refs then bump f (n + 1) refs else n
  end.

Definition fill_origin (o : Z) (it : item) : item :=
  match i_origin it with
  | Some _ => it
  | None => {| i_ty := i_ty it; i_set := i_set it; i_name := i_name it; i_origin := Some o; i_copy := i_copy it;
               i_attrs := i_attrs it; i_dataset := i_dataset it; i_cast := i_cast it |}
  end.

Definition attr_index (ty : nat) (pyname : list Z) : nat :=
  (fix go (l : list adef) (k : nat) : nat :=
     match l with [] => k | a :: r => if list_eqb (ad_name a) pyname then k else go r (S k) end) (td_attrs (tdef_at ty)) 0%nat.

Definition str_file_id : list Z := [102; 105; 108; 101; 95; 105; 100].                 (* "file_id" *)
Definition str_file_set_number : list Z := [102;105;108;101;95;115;101;116;95;110;117;109;98;101;114].   (* "file_set_number" *)

(* OriginItem tail: in high-compatibility mode an unspecified FILE-SET-NUMBER is the ordinal in the set
   (outside the mode it is random: the harness always supplies it) *)
Definition origin_fsn_default (hc : bool) (st : bstate) (sid iid : nat) : bstate :=
  let it := item_at st iid in
  let fi := attr_index T_ORIGIN str_file_set_number in
  match fst (nth fi (i_attrs it) (SPNone, None)) with
  | SPNone => if hc then
                set_item st iid {| i_ty := i_ty it; i_set := i_set it; i_name := i_name it; i_origin := i_origin it; i_copy := i_copy it;
                                   i_attrs := upd (i_attrs it) fi (SPScalar (SInt (zlen (s_items (set_at st sid)))), None);
                                   i_dataset := i_dataset it; i_cast := i_cast it |}
              else st
  | _ => st
  end.

Fixpoint fill_some (mine : list nat) (o : Z) (k : nat) (items : list item) : list item :=
  match items with
  | [] => []
  | it :: r => (if existsb (Nat.eqb k) mine then fill_origin o it else it) :: fill_some mine o (S k) r
  end.

(* the first origin of a logical file: every item without origin in the sets of the logical file's registry, and the
   header, take its reference *)
Definition origin_backfill (st : bstate) (l : nat) (f1 : lfile) (iid : nat) (new_ref : Z) : bstate :=
  let f3 := match lf_at st l with Some x => x | None => f1 end in
  if Nat.eqb (length (lf_origins st f3)) 1 then
    let o := match i_origin (item_at st iid) with Some z => z | None => new_ref end in
    let mine := concat (map (fun '(_, d) => concat (map (fun '(_, sid) => s_items (set_at st sid)) d)) (l_reg f3)) in
    let st4 := {| b_items := fill_some mine o 0 (b_items st); b_sets := b_sets st; b_phys := b_phys st; b_lfs := b_lfs st |} in
    let f4 := {| l_hid := l_hid f3; l_seq := l_seq f3; l_ident := l_ident f3; l_fh_origin := Some o;
                 l_reg := l_reg f3; l_nofmt := l_nofmt f3; l_data := l_data f3 |} in
    set_lf st4 l f4
  else st.

(* add_origin *)
Definition add_origin (hc : bool) (st : bstate) (l : nat) (name : raw) (sn : oname) (origin_arg : raw) (kw : list (nat * praw))
  : bstate * outcome :=
  match lf_at st l with
  | None => (st, Rejected EOther)
  | Some f =>
      let '(st1, sid) := get_or_make_set st T_ORIGIN sn in
      let f1 := try_add_set st1 f T_ORIGIN sn sid in
      let st2 := set_lf st1 l f1 in
      let origins := lf_origins st2 f1 in
      let refs := map (fun i => i_origin (item_at st2 i)) origins in
      let explicit := match origin_arg with RInt 0 | RNone => None | RInt z => Some z | _ => None end in
      let clash :=
        match explicit with
        | Some z => if existsb (fun r => match r with Some x => x =? z | None => false end) refs then Some ERuntime else None
        | None => None
        end in
      match clash with
      | Some e => (st2, Rejected e)
      | None =>
          let new_ref := match explicit with Some z => z | None => bump (S (length refs)) (zlen origins) refs end in
          (* origin_reference=origin_reference or new_origin_ref; file_id=header id is part of kw (placed by the harness
             at its position in the constructor call) *)
          let '(st3, out) := add_common hc st2 l T_ORIGIN name sn (RInt new_ref) (fun _ _ => Some new_ref) kw None None in
          match out with
          | Accepted (Some iid) => (origin_backfill (origin_fsn_default hc st3 sid iid) l f1 iid new_ref, out)
          | _ => (st3, out)
          end
      end
  end.

(* ChannelItem.dataset_name *)
Definition dataset_name_of (it : item) : list Z := match i_dataset it with Some d => d | None => i_name it end.

(* LogicalFile._get_unique_dataset_name; the channel name may be any object: only str names are modelled further *)
Definition str_dunder : list Z := [95; 95].
Fixpoint first_free (fuel : nat) (k : Z) (base : list Z) (names : list (list Z)) : option (list Z) :=
  match fuel with
  | O => None
  | S f => let n := base ++ str_dunder ++ dec_digits k in
           if existsb (list_eqb n) names then first_free f (k + 1) base names else Some n
  end.
Definition unique_dataset_name (st : bstate) (f : lfile) (chname : list Z) (ds : option (list Z)) : res (list Z) :=
  let names := map (fun i => dataset_name_of (item_at st i)) (reg_items st (l_reg f) T_CHANNEL) in
  match ds with
  | Some d => if existsb (list_eqb d) names then Err EValue else OK d
  | None => if existsb (list_eqb chname) names then
              match first_free 999 1 chname names with Some n => OK n | None => Err ERuntime end
            else OK chname
  end.

Definition set_data (f : lfile) (k : list Z) (d : chdata) : lfile :=
  let fix put (l : list (list Z * chdata)) :=
    match l with
    | [] => [(k, d)]
    | (k', v) :: r => if list_eqb k k' then (k', d) :: r else (k', v) :: put r
    end in
  {| l_hid := l_hid f; l_seq := l_seq f; l_ident := l_ident f; l_fh_origin := l_fh_origin f;
     l_reg := l_reg f; l_nofmt := l_nofmt f; l_data := put (l_data f) |}.

(* add_channel. data: None, or the facts of the ndarray; bad_data: something that is not an ndarray *)
Definition add_channel (hc : bool) (st : bstate) (l : nat) (name : raw) (sn : oname) (origin_arg : raw) (kw : list (nat * praw))
           (bad_data : bool) (data : option chdata) (ds : option (list Z)) (cast : option (option Z)) : bstate * outcome :=
  match lf_at st l with
  | None => (st, Rejected EOther)
  | Some f =>
      if bad_data then (st, Rejected EValue)
      else
        let chname := match name with RStr s _ => s | _ => [] end in
        match unique_dataset_name st f chname ds with
        | Err e => (st, Rejected e)
        | OK dsn =>
            match cast with
            | Some None => (* a cast_dtype that is not one of the supported dtypes: rejected before registration *)
                let '(st1, sid) := get_or_make_set st T_CHANNEL sn in
                (set_lf st1 l (try_add_set st1 f T_CHANNEL sn sid), Rejected EValue)
            | _ =>
                let c := match cast with Some (Some c) => Some c | _ => None end in
                let '(st3, out) := add_common hc st l T_CHANNEL name sn origin_arg default_origin kw (Some dsn) c in
                match out, data with
                | Accepted (Some iid), Some d =>
                    match lf_at st3 l with
                    | Some f3 => (set_lf st3 l (set_data f3 (dataset_name_of (item_at st3 iid)) d), out)
                    | None => (st3, out)
                    end
                | _, _ => (st3, out)
                end
            end
        end
  end.

(* add_frame: `channels` must be a non-empty list/tuple of channel items (checked before anything is created) *)
Definition add_frame (hc : bool) (st : bstate) (l : nat) (name : raw) (sn : oname) (origin_arg : raw) (channels : raw)
           (chan_idx : nat) (kw : list (nat * praw)) : bstate * outcome :=
  match channels with
  | RList [] => (st, Rejected EValue)
  | RList cs =>
      if forallb (fun c => match c with
                           | RRef i => match item_ty_of st i with Some t => Nat.eqb t T_CHANNEL | None => false end
                           | _ => false end) cs
      then add_common hc st l T_FRAME name sn origin_arg default_origin ((chan_idx, PVal channels) :: kw) None None
      else (st, Rejected EType)
  | _ => (st, Rejected EType)
  end.

(* add_no_format_frame_data: no check at all *)
Definition add_nofmt_data (st : bstate) (l : nat) (obj : raw) (p : payload_in) : bstate * outcome :=
  match lf_at st l with
  | None => (st, Rejected EOther)
  | Some f => (set_lf st l {| l_hid := l_hid f; l_seq := l_seq f; l_ident := l_ident f; l_fh_origin := l_fh_origin f;
                               l_reg := l_reg f; l_nofmt := l_nofmt f ++ [(obj, p)]; l_data := l_data f |}, Accepted None)
  end.

(* add_logical_file(fh_id, fh_sequence_number): FileHeaderItem checks *)
Definition add_lf (hc : bool) (st : bstate) (hid : raw) (seq : raw) : bstate * outcome :=
  match hid, seq with
  | RStr h _, RInt z =>
      if 65 <? zlen h then (st, Rejected EValue)
      else if negb ((0 <? z) && (z <=? 9999999999)) then (st, Rejected EValue)
      else if hc && negb (hc_string h) then (st, Rejected EValue)
      else ({| b_items := b_items st; b_sets := b_sets st; b_phys := b_phys st;
               b_lfs := b_lfs st ++ [{| l_hid := h; l_seq := z; l_ident := [48]; l_fh_origin := None; l_reg := [];
                                        l_nofmt := []; l_data := [] |}] |}, Accepted None)
  | RStr _ _, RBool _ => (st, Rejected EType)        (* a bool is not a sequence number (str(True) is not digits) *)
  | _, _ => (st, Rejected EType)
  end.

(* later assignment obj.<attr>.value = x / obj.<attr>.units = u *)
Definition assign (hc : bool) (st : bstate) (i : nat) (idx : nat) (units : bool) (r : raw) : bstate * outcome :=
  match nth_error (b_items st) i with
  | None => (st, Rejected EOther)
  | Some it =>
      match (if units then set_units hc st it idx r else set_value hc st it idx r) with
      | OK it' => (set_item st i it', Accepted None)
      | Err e => (st, Rejected e)
      end
  end.

(* item.origin_reference = v (public setter): the value must be an int *)
Definition with_origin (it : item) (o : option Z) : item :=
  {| i_ty := i_ty it; i_set := i_set it; i_name := i_name it; i_origin := o; i_copy := i_copy it;
     i_attrs := i_attrs it; i_dataset := i_dataset it; i_cast := i_cast it |}.
Definition set_origin (st : bstate) (i : nat) (r : raw) : bstate * outcome :=
  match nth_error (b_items st) i with
  | None => (st, Rejected EOther)
  | Some it =>
      match r with
      | RInt z => (set_item st i (with_origin it (Some z)), Accepted None)
      | RBool _ => (st, Rejected EOther)          (* bool is an int: outside the model *)
      | _ => (st, Rejected EType)
      end
  end.

(* lf.file_header.header_id = s / lf.file_header.sequence_number = n: plain attributes, nothing is validated until a write *)
Definition set_header (st : bstate) (l : nat) (is_id : bool) (r : raw) : bstate * outcome :=
  match lf_at st l with
  | None => (st, Rejected EOther)
  | Some f =>
      match is_id, r with
      | true, RStr s _ => (set_lf st l {| l_hid := s; l_seq := l_seq f; l_ident := l_ident f; l_fh_origin := l_fh_origin f;
                                          l_reg := l_reg f; l_nofmt := l_nofmt f; l_data := l_data f |}, Accepted None)
      | false, RInt z => (set_lf st l {| l_hid := l_hid f; l_seq := z; l_ident := l_ident f; l_fh_origin := l_fh_origin f;
                                         l_reg := l_reg f; l_nofmt := l_nofmt f; l_data := l_data f |}, Accepted None)
      | _, _ => (st, Rejected EOther)          (* any other object is stored as it is: outside the model *)
      end
  end.

Inductive op :=
| OAddLF (hid seq : raw)
| OAdd (l ty : nat) (name : raw) (sn : oname) (origin : raw) (kw : list (nat * praw))
| OAddOrigin (l : nat) (name : raw) (sn : oname) (origin : raw) (kw : list (nat * praw))
| OAddChannel (l : nat) (name : raw) (sn : oname) (origin : raw) (kw : list (nat * praw))
              (bad_data : bool) (data : option chdata) (ds : option (list Z)) (cast : option (option Z))
| OAddFrame (l : nat) (name : raw) (sn : oname) (origin : raw) (channels : raw) (kw : list (nat * praw))
| OAssign (i idx : nat) (units : bool) (r : raw)
| ONoFmt (l : nat) (obj : raw) (p : payload_in)
| OQuery (l : nat)                       (* lf.channels / frames / origins / defining_origin: read-only *)
| OEnterHC | OExitHC
| OSetOrigin (i : nat) (r : raw)
| OSetHeader (l : nat) (is_id : bool) (r : raw).

(* process-level flag with the save/restore stack of the context manager *)
Record pstate := { p_hc : bool; p_stack : list bool }.

Definition chan_attr_idx : nat := attr_index T_FRAME [99; 104; 97; 110; 110; 101; 108; 115].   (* "channels" *)

Definition step (ps : pstate) (st : bstate) (o : op) : pstate * bstate * outcome :=
  let hc := p_hc ps in
  match o with
  | OAddLF h s => let '(st', out) := add_lf hc st h s in (ps, st', out)
  | OAdd l ty n sn org kw => let '(st', out) := add_common hc st l ty n sn org default_origin kw None None in (ps, st', out)
  | OAddOrigin l n sn org kw => let '(st', out) := add_origin hc st l n sn org kw in (ps, st', out)
  | OAddChannel l n sn org kw bad d ds c => let '(st', out) := add_channel hc st l n sn org kw bad d ds c in (ps, st', out)
  | OAddFrame l n sn org ch kw => let '(st', out) := add_frame hc st l n sn org ch chan_attr_idx kw in (ps, st', out)
  | OAssign i idx u r => let '(st', out) := assign hc st i idx u r in (ps, st', out)
  | ONoFmt l obj p => let '(st', out) := add_nofmt_data st l obj p in (ps, st', out)
  | OQuery l => (ps, st, Accepted None)
  | OEnterHC => ({| p_hc := true; p_stack := p_hc ps :: p_stack ps |}, st, Accepted None)
  | OExitHC => match p_stack ps with
               | b :: r => ({| p_hc := b; p_stack := r |}, st, Accepted None)
               | [] => (ps, st, Rejected EOther)
               end
  | OSetOrigin i r => let '(st', out) := set_origin st i r in (ps, st', out)
  | OSetHeader l b r => let '(st', out) := set_header st l b r in (ps, st', out)
  end.

Fixpoint run_ops (ps : pstate) (st : bstate) (ops : list op) : pstate * bstate * list outcome :=
  match ops with
  | [] => (ps, st, [])
  | o :: r => let '(ps1, st1, out) := step ps st o in
              let '(ps2, st2, outs) := run_ops ps1 st1 r in (ps2, st2, out :: outs)
  end.
