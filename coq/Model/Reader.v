(* Reader.v — the strict RP66 V1 framing reader (physical part): storage unit label, visible records,
   logical record segments, reassembly. It is the oracle applied to implementation output. *)
From DV Require Export Model.Output.

(* a logical record segment as the standard describes it *)
Record segment := {
  s_eflr : bool; s_pred : bool; s_succ : bool; s_type : Z;
  s_chunk : bytes;       (* body bytes carried by the segment *)
  s_padb : bytes         (* pad bytes (trailer); empty iff the padding bit is clear *)
}.


Definition seg_len (s : segment) : Z := 4 + zlen (s_chunk s) + zlen (s_padb s).

Definition seg_bytes (s : segment) : bytes :=
  be2 (seg_len s) ++ [seg_attr (s_eflr s) (negb (s_pred s)) (negb (s_succ s)) (nonnil (s_padb s)); s_type s]
  ++ s_chunk s ++ s_padb s.

(* well-formedness of a segment (declarative): even length >= 16, pad count in the last pad byte *)
Definition seg_wf (s : segment) : bool :=
  Z.even (seg_len s) && (16 <=? seg_len s) && (seg_len s <? 65536)
  && is_byte (s_type s) && all_bytes (s_chunk s) && all_bytes (s_padb s)
  && (match s_padb s with [] => true | _ => last (s_padb s) 0 =? zlen (s_padb s) end).

Definition vr_len (segs : list segment) : Z := 4 + zlen (concat (map seg_bytes segs)).
Definition vr_bytes (segs : list segment) : bytes :=
  be2 (vr_len segs) ++ [255; 1] ++ concat (map seg_bytes segs).
Definition vr_wf (maxlen : Z) (segs : list segment) : bool :=
  nonnil segs && forallb seg_wf segs && (20 <=? vr_len segs) && (vr_len segs <=? maxlen).

(* ---- parsing ---- *)

(* one segment from the front of bs *)
Definition parse_seg (bs : bytes) : option (segment * bytes) :=
  match bs with
  | a :: b :: at_ :: ty :: r =>
      let len := of_be2 a b in
      if negb (is_byte a && is_byte b && is_byte at_ && is_byte ty) then None
      else if negb (Z.even len && (16 <=? len)) then None
      else if negb ((at_ / 2) mod 16 =? 0) then None       (* encryption, checksum, trailing length: never *)
      else
        match take (len - 4) r with
        | None => None
        | Some (payload, rest) =>
            if negb (all_bytes payload) then None else
            let padbit := Z.odd at_ in
            let pc := if padbit then last payload 0 else 0 in
            if padbit && negb ((1 <=? pc) && (pc <=? len - 4)) then None
            else
              Some ({| s_eflr := 128 <=? at_; s_pred := Z.odd (at_ / 64); s_succ := Z.odd (at_ / 32);
                       s_type := ty;
                       s_chunk := firstnz (len - 4 - pc) payload;
                       s_padb := skipnz (len - 4 - pc) payload |}, rest)
        end
  | _ => None
  end.

(* all segments tiling bs exactly *)
Fixpoint parse_segs (fuel : nat) (bs : bytes) : option (list segment) :=
  match fuel with
  | O => None
  | S f =>
      match bs with
      | [] => Some []
      | _ => match parse_seg bs with
             | Some (s, rest) => match parse_segs f rest with Some ss => Some (s :: ss) | None => None end
             | None => None
             end
      end
  end.

(* one visible record from the front of bs *)
Definition parse_vr (maxlen : Z) (bs : bytes) : option (list segment * bytes) :=
  match bs with
  | a :: b :: m1 :: m2 :: r =>
      let len := of_be2 a b in
      if negb (is_byte a && is_byte b) then None
      else if negb ((m1 =? 255) && (m2 =? 1)) then None
      else if negb (Z.even len && (20 <=? len) && (len <=? maxlen)) then None
      else match take (len - 4) r with
           | None => None
           | Some (body, rest) =>
               match parse_segs (S (length body)) body with
               | Some (s :: ss) => Some (s :: ss, rest)
               | _ => None
               end
           end
  | _ => None
  end.

Fixpoint parse_vrs (fuel : nat) (maxlen : Z) (bs : bytes) : option (list (list segment)) :=
  match fuel with
  | O => None
  | S f =>
      match bs with
      | [] => Some []
      | _ => match parse_vr maxlen bs with
             | Some (v, rest) => match parse_vrs f maxlen rest with Some vs => Some (v :: vs) | None => None end
             | None => None
             end
      end
  end.

(* the file: the 80 label bytes the configuration prescribes, then visible records and nothing else *)
Definition parse_file (c : sulcfg) (bs : bytes) : option (list (list segment)) :=
  match sul_bytes c with
  | OK lab =>
      if negb (check_vrl (sul_vrl c)) then None
      else if negb (zlen lab =? 80) then None
      else if negb (list_eqb (firstnz 80 bs) lab) then None
      else parse_vrs (S (length bs)) (sul_vrl c) (skipnz 80 bs)
  | Err _ => None
  end.

(* the label as a reader sees it, without knowing the configuration: (sequence digits, max length digits, id) *)
Definition read_sul (bs : bytes) : option (bytes * bytes * bytes) :=
  if zlen bs <? 80 then None
  else
    let f a b := slice a b bs in
    if negb (all_ascii (firstnz 80 bs)) then None
    else if negb (list_eqb (f 4 9) str_V100 && list_eqb (f 9 15) str_RECORD) then None
    else Some (f 0 4, f 15 20, f 20 80).

(* ---- reassembly with the bracket discipline ---- *)

(* state: the record being assembled, if any *)
Fixpoint reassemble_aux (cur : option lrec) (segs : list segment) : option (list lrec) :=
  match segs with
  | [] => match cur with None => Some [] | Some _ => None end      (* a record left open *)
  | s :: ss =>
      match cur with
      | None =>
          if s_pred s then None                                     (* continuation without a start *)
          else let r := {| lr_eflr := s_eflr s; lr_type := s_type s; lr_body := s_chunk s |} in
               if s_succ s then reassemble_aux (Some r) ss
               else match reassemble_aux None ss with Some rs => Some (r :: rs) | None => None end
      | Some r =>
          if negb (s_pred s) then None                              (* a new record inside an open one *)
          else if negb (Bool.eqb (s_eflr s) (lr_eflr r) && (s_type s =? lr_type r)) then None
          else let r' := {| lr_eflr := lr_eflr r; lr_type := lr_type r; lr_body := lr_body r ++ s_chunk s |} in
               if s_succ s then reassemble_aux (Some r') ss
               else match reassemble_aux None ss with Some rs => Some (r' :: rs) | None => None end
      end
  end.

Definition reassemble (vrs : list (list segment)) : option (list lrec) := reassemble_aux None (concat vrs).

(* the complete physical reader: file bytes -> logical records *)
Definition read_records (c : sulcfg) (bs : bytes) : option (list lrec) :=
  match parse_file c bs with Some vrs => reassemble vrs | None => None end.

(* C01 decider on implementation output: strict framing under the configured label *)
Definition check_layout (c : sulcfg) (bs : bytes) : bool :=
  match parse_file c bs with Some _ => true | None => false end.

(* ---- declarative bracket discipline (specification of what reassembly accepts) ---- *)

(* the segments of one logical record: same flag and type throughout, predecessor bit on all but the first,
   successor bit on all but the last *)
Inductive Run (e : bool) (ty : Z) : bool -> list segment -> Prop :=
| run_last : forall first s,
    s_eflr s = e -> s_type s = ty -> s_pred s = negb first -> s_succ s = false -> Run e ty first [s]
| run_more : forall first s ss,
    s_eflr s = e -> s_type s = ty -> s_pred s = negb first -> s_succ s = true -> Run e ty false ss ->
    Run e ty first (s :: ss).

(* a segment sequence is a concatenation of runs, one per record, never interleaved *)
Inductive Bracketed : list segment -> list lrec -> Prop :=
| br_nil : Bracketed [] []
| br_rec : forall e ty run rest rs,
    Run e ty true run -> Bracketed rest rs ->
    Bracketed (run ++ rest) ({| lr_eflr := e; lr_type := ty; lr_body := concat (map s_chunk run) |} :: rs).
