(* ApiDispatch.v — programs over the public API (operation lists with writes) from / to trees. *)
From DV Require Export Model.Tree Model.Write.

Definition as_nat (t : tree) : option nat := match t with TI z => if 0 <=? z then Some (Z.to_nat z) else None | _ => None end.

Definition as_dtime' (t : tree) : option dtime :=
  match t with
  | TL [TI y; TI mo; TI d; TI h; TI mi; TI s; TI us] =>
      Some {| dt_year := y; dt_month := mo; dt_day := d; dt_hour := h; dt_min := mi; dt_sec := s; dt_us := us |}
  | _ => None
  end.

Definition as_hint (t : tree) : option rhint :=
  match t with
  | TL [] => Some HNone
  | TL [TI 1; TI z] => Some (HInt z)
  | TL [TI 2; TI b] => Some (HFloat b)
  | TL [TI 3; d] => match as_dtime' d with Some d' => Some (HDT d') | None => None end
  | TL [TI 4; TI b] => Some (HFloatLoose b)
  | _ => None
  end.

Fixpoint as_raw (t : tree) : option raw :=
  match t with
  | TL [TI 0] => Some RNone
  | TL [TI 1; TI z] => Some (RInt z)
  | TL [TI 2; b] => match as_bool b with Some b' => Some (RBool b') | None => None end
  | TL [TI 3; TI b] => Some (RFloat b)
  | TL [TI 4; TB s; h] => match as_hint h with Some h' => Some (RStr s h') | None => None end
  | TL [TI 5; d] => match as_dtime' d with Some d' => Some (RDT d') | None => None end
  | TL [TI 6; i] => match as_nat i with Some i' => Some (RRef i') | None => None end
  | TL [TI 7; TL l] =>
      match (fix go (l : list tree) : option (list raw) :=
               match l with
               | [] => Some []
               | x :: r => match as_raw x, go r with Some y, Some ys => Some (y :: ys) | _, _ => None end
               end) l with
      | Some l' => Some (RList l')
      | None => None
      end
  | TL [TI 8; TI e; TI m] => Some (REnum e m)
  | TL [TI 9] => Some ROther
  | _ => None
  end.

Definition as_optraw (t : tree) : option (option raw) :=
  match t with TL [] => Some None | TL [r] => match as_raw r with Some r' => Some (Some r') | None => None end | _ => None end.

Definition as_praw (t : tree) : option praw :=
  match t with
  | TL [TI 0; r] => match as_raw r with Some r' => Some (PVal r') | None => None end
  | TL [TI 1; v; u] => match as_optraw v, as_optraw u with Some v', Some u' => Some (PSetup v' u') | _, _ => None end
  | _ => None
  end.

Definition as_kw (t : tree) : option (list (nat * praw)) :=
  match t with
  | TL l => map_opt (fun x => match x with
                              | TL [i; p] => match as_nat i, as_praw p with Some i', Some p' => Some (i', p') | _, _ => None end
                              | _ => None end) l
  | _ => None
  end.

Definition as_oname (t : tree) : option oname := match t with TL [] => Some None | TB s => Some (Some s) | _ => None end.

Definition as_ints (t : tree) : option (list Z) := match t with TL l => map_opt as_int l | _ => None end.

Definition as_chdata (t : tree) : option chdata :=
  match t with
  | TL [TI c; sh; TI rows] => match as_ints sh with Some s => Some {| cd_code := c; cd_shape := s; cd_rows := rows |} | None => None end
  | _ => None
  end.

Definition as_opt {A} (f : tree -> option A) (t : tree) : option (option A) :=
  match t with TL [] => Some None | TL [x] => match f x with Some y => Some (Some y) | None => None end | _ => None end.

Definition as_payload_in (t : tree) : option payload_in :=
  match t with TL [TI 0; TB b] => Some (PayBytes b) | TL [TI 1; TB s] => Some (PayText s) | TL [TI 2] => Some PayOther | _ => None end.

Definition as_op (t : tree) : option op :=
  match t with
  | TL [TI 0; h; s] => match as_raw h, as_raw s with Some h', Some s' => Some (OAddLF h' s') | _, _ => None end
  | TL [TI 1; l; ty; n; sn; org; kw] =>
      match as_nat l, as_nat ty, as_raw n, as_oname sn, as_raw org, as_kw kw with
      | Some l', Some ty', Some n', Some sn', Some org', Some kw' => Some (OAdd l' ty' n' sn' org' kw')
      | _, _, _, _, _, _ => None
      end
  | TL [TI 2; l; n; sn; org; kw] =>
      match as_nat l, as_raw n, as_oname sn, as_raw org, as_kw kw with
      | Some l', Some n', Some sn', Some org', Some kw' => Some (OAddOrigin l' n' sn' org' kw')
      | _, _, _, _, _ => None
      end
  | TL [TI 3; l; n; sn; org; kw; bad; d; ds; cast] =>
      match as_nat l, as_raw n, as_oname sn, as_raw org, as_kw kw, as_bool bad, as_opt as_chdata d, as_opt as_bytes ds,
            as_opt (as_opt as_int) cast with
      | Some l', Some n', Some sn', Some org', Some kw', Some bad', Some d', Some ds', Some c' =>
          Some (OAddChannel l' n' sn' org' kw' bad' d' ds' c')
      | _, _, _, _, _, _, _, _, _ => None
      end
  | TL [TI 4; l; n; sn; org; ch; kw] =>
      match as_nat l, as_raw n, as_oname sn, as_raw org, as_raw ch, as_kw kw with
      | Some l', Some n', Some sn', Some org', Some ch', Some kw' => Some (OAddFrame l' n' sn' org' ch' kw')
      | _, _, _, _, _, _ => None
      end
  | TL [TI 5; i; idx; u; r] =>
      match as_nat i, as_nat idx, as_bool u, as_raw r with
      | Some i', Some idx', Some u', Some r' => Some (OAssign i' idx' u' r')
      | _, _, _, _ => None
      end
  | TL [TI 6; l; obj; p] =>
      match as_nat l, as_raw obj, as_payload_in p with
      | Some l', Some o', Some p' => Some (ONoFmt l' o' p')
      | _, _, _ => None
      end
  | TL [TI 7; l] => match as_nat l with Some l' => Some (OQuery l') | None => None end
  | TL [TI 8] => Some OEnterHC
  | TL [TI 9] => Some OExitHC
  | TL [TI 11; i; r] => match as_nat i, as_raw r with Some i', Some r' => Some (OSetOrigin i' r') | _, _ => None end
  | TL [TI 12; l; b; r] => match as_nat l, as_bool b, as_raw r with Some l', Some b', Some r' => Some (OSetHeader l' b' r') | _, _, _ => None end
  | _ => None
  end.

Definition as_slot' (t : tree) : option slot := match t with TL [TI size; TB vs] => Some (size, vs) | _ => None end.

Definition as_idx (t : tree) : option idxstats :=
  match t with
  | TL [TI mn; TI mx; sp; dir; b] =>
      match as_optint sp, as_opt as_bool dir, as_bool b with
      | Some sp', Some d', Some b' => Some {| ix_min := mn; ix_max := mx; ix_spacing := sp'; ix_direction := d'; ix_1d := b' |}
      | _, _, _ => None
      end
  | _ => None
  end.

Definition as_wframe (t : tree) : option wframe :=
  match t with
  | TL [i; TL rows; ix] =>
      match as_nat i, map_opt (fun r => match r with TL ss => map_opt as_slot' ss | _ => None end) rows, as_opt as_idx ix with
      | Some i', Some rows', Some ix' => Some {| wf_item := i'; wf_rows := rows'; wf_index := ix' |}
      | _, _, _ => None
      end
  | _ => None
  end.

Definition as_wopts (t : tree) : option wopts :=
  match t with
  | TL [d; TI from; to_; TL frames; TI seq; TI vrl; TB ident] =>
      match as_opt (fun x => match x with
                             | TL l => map_opt (fun e => match e with
                                                         | TL [TB k; c] => match as_chdata c with Some c' => Some (k, c') | None => None end
                                                         | _ => None end) l
                             | _ => None end) d,
            as_optint to_, map_opt as_wframe frames with
      | Some d', Some to', Some fr' =>
          Some {| w_data := d'; w_from := from; w_to := to'; w_frames := fr'; w_seq := seq; w_vrl := vrl; w_ident := ident |}
      | _, _, _ => None
      end
  | _ => None
  end.

Definition t_outcome (o : outcome) : tree :=
  match o with
  | Accepted (Some i) => TL [TI 0; TI (Z.of_nat i)]
  | Accepted None => TL [TI 0]
  | Rejected e => TL [TI 1; TI e]
  end.

(* a program: operations, writes (TI 10), and "a new DLISFile object" (TI 20); the process state persists *)
Fixpoint run_program (ps : pstate) (st : bstate) (steps : list tree) : list tree :=
  match steps with
  | [] => [TL [TI 99; t_bool (p_hc ps)]]
  | TL [TI 10; w] :: rest =>
      match as_wopts w with
      | Some w' => let '(st', r) := write (p_hc ps) st w' in t_res TB r :: run_program ps st' rest
      | None => [t_bad]
      end
  | TL [TI 20] :: rest => TL [TI 0] :: run_program ps b_init rest
  (* an assignment to a field of the storage unit label (a plain object): nothing happens until the next write, which
     receives the label's fields as they are then (w_seq, w_vrl, w_ident) *)
  | TL [TI 13] :: rest => TL [TI 0] :: run_program ps st rest
  | t :: rest =>
      match as_op t with
      | Some o => let '(ps', st', out) := step ps st o in t_outcome out :: run_program ps' st' rest
      | None => [t_bad]
      end
  end.

Definition p_init : pstate := {| p_hc := false; p_stack := [] |}.
