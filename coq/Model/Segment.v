(* Segment.v — model of LogicalRecordBytes.make_segment/make_segments, SegmentAttributes.to_struct,
   DLISWriter._make_visible_record/_check_visible_record_length, StorageUnitLabel.represent_as_bytes
   and the record loop of DLISWriter.write_logical_records. *)
From DV Require Export Model.Prim.

(* a logical record as handed to the writer: explicit/indirect flag, type byte, body *)
Record lrec := { lr_eflr : bool; lr_type : Z; lr_body : bytes }.

(* SegmentAttributes.to_struct: weights 128 64 32 16 8 4 2 1 *)
Definition seg_attr (eflr first last pad : bool) : Z :=
  128 * b2z eflr + 64 * b2z (negb first) + 32 * b2z (negb last) + b2z pad.

(* pad bytes of a segment whose body chunk has n bytes: up to 12, then to an even total *)
Definition pad_count (n : Z) : Z :=
  let p := Z.max (12 - n) 0 in
  if Z.odd (n + p + 4) then p + 1 else p.

(* make_segment: header (length, attributes, type) + chunk + pad bytes, each holding the count *)
Definition make_segment (eflr : bool) (ty : Z) (first last : bool) (chunk : bytes) : res bytes :=
  let n := zlen chunk in
  let p := pad_count n in
  let size := n + p + 4 in
  do h <- enc_unorm size;
  do a <- enc_ushort (seg_attr eflr first last (0 <? p));
  OK (h ++ a ++ [ty] ++ chunk ++ zrepeat p p).

(* the splitting loop of make_segments: sizes of the successive chunks for a body of `rem` bytes *)
Fixpoint plan (fuel : nat) (cap rem : Z) : res (list Z) :=
  match fuel with
  | O => Err EFuel
  | S f =>
      if rem <=? 0 then OK []
      else
        let n0 := Z.min rem cap in
        let fr0 := rem - n0 in
        let shift := (0 <? fr0) && (fr0 <? 12) in
        let n := if shift then n0 - (12 - fr0) else n0 in
        let fr := if shift then 12 else fr0 in
        do rest <- plan f cap fr; OK (n :: rest)
  end.

(* cut the body according to the plan *)
Fixpoint cut (sizes : list Z) (body : bytes) : list bytes :=
  match sizes with
  | [] => []
  | n :: ns => firstnz n body :: cut ns (skipnz n body)
  end.

Fixpoint segs_of_chunks (eflr : bool) (ty : Z) (first : bool) (chunks : list bytes) : res (list bytes) :=
  match chunks with
  | [] => OK []
  | c :: cs =>
      do s <- make_segment eflr ty first (match cs with [] => true | _ => false end) c;
      do r <- segs_of_chunks eflr ty false cs;
      OK (s :: r)
  end.

(* make_segments(max_n_bytes) *)
Definition make_segments (cap : Z) (r : lrec) : res (list bytes) :=
  if cap <? 12 then Err EValue
  else
    do sizes <- plan (S (length (lr_body r))) cap (zlen (lr_body r));
    segs_of_chunks (lr_eflr r) (lr_type r) true (cut sizes (lr_body r)).

(* _make_visible_record *)
Definition make_vr (vrl : Z) (seg : bytes) : res bytes :=
  let size := zlen seg + 4 in
  if vrl <? size then Err EValue
  else do h <- enc_unorm size; OK (h ++ [255; 1] ++ seg).

(* _check_visible_record_length (vrl is an int) *)
Definition check_vrl (vrl : Z) : bool := (20 <=? vrl) && (vrl <=? 16384) && Z.even vrl.

(* storage unit label: sequence number, max record length, set identifier *)
Record sulcfg := { sul_seq : Z; sul_vrl : Z; sul_id : list Z }.

Definition str_V100 : list Z := [86; 49; 46; 48; 48].          (* "V1.00" *)
Definition str_RECORD : list Z := [82; 69; 67; 79; 82; 68].    (* "RECORD" *)

(* str(n) for the non-negative integers the label is specified for *)
Definition sul_bytes (c : sulcfg) : res bytes :=
  if (sul_seq c <? 0) || (sul_vrl c <? 0) then Err EOther  (* outside the modelled input domain *)
  else
  do a <- justify (dec_digits (sul_seq c)) 4 false;
  do b <- justify str_V100 5 true;
  do d <- justify str_RECORD 6 false;
  do e <- justify (dec_digits (sul_vrl c)) 5 false;
  do f <- justify (sul_id c) 60 true;
  OK (a ++ b ++ d ++ e ++ f).

Fixpoint vrs_of_segs (vrl : Z) (segs : list bytes) : res (list bytes) :=
  match segs with
  | [] => OK []
  | s :: ss => do v <- make_vr vrl s; do r <- vrs_of_segs vrl ss; OK (v :: r)
  end.

(* all visible records of a list of logical records, in order *)
Fixpoint vrs_of_recs (vrl : Z) (recs : list lrec) : res (list bytes) :=
  match recs with
  | [] => OK []
  | r :: rs =>
      do segs <- make_segments (vrl - 8) r;
      do v <- vrs_of_segs vrl segs;
      do rest <- vrs_of_recs vrl rs;
      OK (v ++ rest)
  end.

(* the whole file: DLISWriter(vrl) ; write_storage_unit_label ; write_logical_records *)
Definition write_file (c : sulcfg) (recs : list lrec) : res bytes :=
  if negb (check_vrl (sul_vrl c)) then Err EValue
  else
    do s <- sul_bytes c;
    do vs <- vrs_of_recs (sul_vrl c) recs;
    OK (s ++ concat vs).
