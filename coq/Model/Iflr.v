(* Iflr.v — bodies of the indirectly formatted records: FrameData._make_body_bytes and
   NoFormatFrameData._make_body_bytes, and their standard decoders. *)
From DV Require Export Model.Segment.

(* ---- no-format data ---- *)
Inductive payload := PBytes (b : bytes) | PText (s : list Z).

Definition payload_bytes (p : payload) : res bytes :=
  match p with PBytes b => OK b | PText s => enc_chars s end.

Definition nofmt_body (o : obname) (p : payload) : res bytes :=
  do ob <- enc_obname o; do d <- payload_bytes p; OK (ob ++ d).

Definition nofmt_rec (o : obname) (p : payload) : res lrec :=
  do b <- nofmt_body o p; OK {| lr_eflr := false; lr_type := 1; lr_body := b |}.

(* reader: the object reference, then everything else is the payload *)
Definition dec_nofmt (body : bytes) : option (obname * bytes) := dec_obname body.

(* ---- frame data ---- *)

(* big-endian bytes of an element given as its bit pattern; size is 1, 2, 4 or 8 *)
Definition be_n (size v : Z) : res bytes :=
  if size =? 1 then enc_ushort v
  else if size =? 2 then enc_unorm v
  else if size =? 4 then enc_ulong v
  else if size =? 8 then enc_fdoubl v
  else Err EValue.

Fixpoint enc_elems (size : Z) (vs : list Z) : res bytes :=
  match vs with
  | [] => OK []
  | v :: r => do a <- be_n size v; do b <- enc_elems size r; OK (a ++ b)
  end.

(* a slot: element size and the elements' bit patterns (row-major for 2-D channels) *)
Definition slot := (Z * list Z)%type.

Fixpoint enc_slots (ss : list slot) : res bytes :=
  match ss with
  | [] => OK []
  | (size, vs) :: r => do a <- enc_elems size vs; do b <- enc_slots r; OK (a ++ b)
  end.

Definition fdata_body (o : obname) (frameno : Z) (ss : list slot) : res bytes :=
  do ob <- enc_obname o; do n <- enc_uvari frameno; do d <- enc_slots ss; OK (ob ++ n ++ d).

Definition fdata_rec (o : obname) (frameno : Z) (ss : list slot) : res lrec :=
  do b <- fdata_body o frameno ss; OK {| lr_eflr := false; lr_type := 0; lr_body := b |}.

(* reader: decoding with the descriptors (element size, element count) taken from the CHANNEL objects *)
Definition dec_n (size : Z) (bs : bytes) : option (Z * bytes) :=
  if size =? 1 then dec_ushort bs
  else if size =? 2 then dec_unorm bs
  else if size =? 4 then dec_ulong bs
  else if size =? 8 then dec_fdoubl bs
  else None.

Fixpoint dec_elems (size : Z) (n : nat) (bs : bytes) : option (list Z * bytes) :=
  match n with
  | O => Some ([], bs)
  | S k => match dec_n size bs with
           | Some (v, r) => match dec_elems size k r with Some (vs, r') => Some (v :: vs, r') | None => None end
           | None => None
           end
  end.

Fixpoint dec_slots (descr : list (Z * nat)) (bs : bytes) : option (list slot * bytes) :=
  match descr with
  | [] => Some ([], bs)
  | (size, n) :: ds =>
      match dec_elems size n bs with
      | Some (vs, r) => match dec_slots ds r with Some (ss, r') => Some ((size, vs) :: ss, r') | None => None end
      | None => None
      end
  end.

(* strict: nothing may be left over *)
Definition dec_fdata (descr : list (Z * nat)) (body : bytes) : option (obname * Z * list slot) :=
  match dec_obname body with
  | Some (o, r) =>
      match dec_uvari r with
      | Some (n, r') =>
          match dec_slots descr r' with
          | Some (ss, []) => Some (o, n, ss)
          | _ => None
          end
      | None => None
      end
  | None => None
  end.

Definition descr_of (ss : list slot) : list (Z * nat) := map (fun '(size, vs) => (size, length vs)) ss.

(* the record length formula of C08 *)
Definition slots_len (descr : list (Z * nat)) : Z := fold_right (fun '(size, n) acc => size * Z.of_nat n + acc) 0 descr.
