(* Write.v — model of DLISFile.write: check_objects, data routing and frame set-up (with their mutations of the
   specification), write-time defaults and consistency checks of every object type, record order, and the bytes. *)
From DV Require Export Model.Builder Model.Reader.

(* ---- oracle inputs of one write: facts computed by numpy independently of dliswriter ---- *)
Record idxstats := {
  ix_min : Z; ix_max : Z;                  (* binary64 bit patterns of min / max of the index channel over the rows written *)
  ix_spacing : option Z;                   (* the uniform signed spacing, if uniform within the tolerance *)
  ix_direction : option bool;              (* true increasing, false decreasing *)
  ix_1d : bool }.
Record wframe := {
  wf_item : nat;                           (* the frame *)
  wf_rows : list (list slot);              (* every row of the (unwindowed) data, slots in frame channel order, after the cast *)
  wf_index : option idxstats }.
Record wopts := {
  w_data : option (list (list Z * chdata));     (* data=None or a dict of arrays *)
  w_from : Z; w_to : option Z;
  w_frames : list wframe;
  w_seq : Z; w_vrl : Z; w_ident : list Z }.     (* storage unit label *)

(* ---- small accessors on items ---- *)
Definition aidx (ty : nat) (name : list Z) : nat := attr_index ty name.
Definition get_attr (it : item) (idx : nat) : spv * option (list Z) := nth idx (i_attrs it) (SPNone, None).
Definition put_value (it : item) (idx : nat) (v : spv) : item :=
  {| i_ty := i_ty it; i_set := i_set it; i_name := i_name it; i_origin := i_origin it; i_copy := i_copy it;
     i_attrs := upd (i_attrs it) idx (v, snd (get_attr it idx)); i_dataset := i_dataset it; i_cast := i_cast it |}.
Definition put_units (it : item) (idx : nat) (u : option (list Z)) : item :=
  {| i_ty := i_ty it; i_set := i_set it; i_name := i_name it; i_origin := i_origin it; i_copy := i_copy it;
     i_attrs := upd (i_attrs it) idx (fst (get_attr it idx), u); i_dataset := i_dataset it; i_cast := i_cast it |}.
Definition put_cast (it : item) (c : option Z) : item :=
  {| i_ty := i_ty it; i_set := i_set it; i_name := i_name it; i_origin := i_origin it; i_copy := i_copy it;
     i_attrs := i_attrs it; i_dataset := i_dataset it; i_cast := c |}.

(* python truthiness / len of a stored value *)
Definition spv_len (p : spv) : option Z := match p with SPList l => Some (zlen l) | _ => None end.
Definition spv_truthy (p : spv) : bool :=
  match p with SPNone => false | SPList [] => false | SPScalar (SStr []) => false | SPScalar (SInt 0) => false | _ => true end.
Definition int_list_of (p : spv) : option (list Z) :=
  match p with
  | SPList l => map_opt (fun n => match n with SLeaf (SInt z) => Some z | _ => None end) l
  | _ => None
  end.
Definition spv_ints (l : list Z) : spv := SPList (map (fun z => SLeaf (SInt z)) l).
Definition refs_of (p : spv) : list nat :=
  match p with
  | SPList l => concat (map (fun n => match n with SLeaf (SItem i) => [i] | _ => [] end) l)
  | SPScalar (SItem i) => [i]
  | _ => []
  end.

(* python attribute names used below *)
Definition n_dimension := [100;105;109;101;110;115;105;111;110]. Definition n_element_limit := [101;108;101;109;101;110;116;95;108;105;109;105;116].
Definition n_axis := [97;120;105;115]. Definition n_long_name := [108;111;110;103;95;110;97;109;101].
Definition n_coordinates := [99;111;111;114;100;105;110;97;116;101;115]. Definition n_values := [118;97;108;117;101;115].
Definition n_zones := [122;111;110;101;115]. Definition n_field_name := [102;105;101;108;100;95;110;97;109;101].
Definition n_file_id := [102;105;108;101;95;105;100]. Definition n_representation_code := [114;101;112;114;101;115;101;110;116;97;116;105;111;110;95;99;111;100;101].
Definition n_channels := [99;104;97;110;110;101;108;115]. Definition n_index_type := [105;110;100;101;120;95;116;121;112;101].
Definition n_spacing := [115;112;97;99;105;110;103]. Definition n_index_min := [105;110;100;101;120;95;109;105;110].
Definition n_index_max := [105;110;100;101;120;95;109;97;120]. Definition n_direction := [100;105;114;101;99;116;105;111;110].
Definition n_units := [117;110;105;116;115]. Definition n_domain := [100;111;109;97;105;110].
Definition n_maximum := [109;97;120;105;109;117;109]. Definition n_minimum := [109;105;110;105;109;117;109].
Definition n_input_channels := [105;110;112;117;116;95;99;104;97;110;110;101;108;115].
Definition n_coefficients := [99;111;101;102;102;105;99;105;101;110;116;115]. Definition n_references := [114;101;102;101;114;101;110;99;101;115].
Definition n_plus_tolerances := [112;108;117;115;95;116;111;108;101;114;97;110;99;101;115]. Definition n_minus_tolerances := [109;105;110;117;115;95;116;111;108;101;114;97;110;99;101;115].
Definition n_maximum_deviation := [109;97;120;105;109;117;109;95;100;101;118;105;97;116;105;111;110].
Definition n_standard_deviation := [115;116;97;110;100;97;114;100;95;100;101;118;105;97;116;105;111;110].
Definition n_standard := [115;116;97;110;100;97;114;100]. Definition n_plus_tolerance := [112;108;117;115;95;116;111;108;101;114;97;110;99;101].
Definition n_minus_tolerance := [109;105;110;117;115;95;116;111;108;101;114;97;110;99;101].
Definition str_WILDCAT := [87;73;76;68;67;65;84]. Definition str_TIME := [84;73;77;69].
Definition str_INCREASING := [73;78;67;82;69;65;83;73;78;71]. Definition str_DECREASING := [68;69;67;82;69;65;83;73;78;71].

(* ---- write-time checks and defaults per object type (_run_checks_and_set_defaults) ---- *)

(* np.array(value).shape[1:] for a regular nested list; None if ragged *)
Fixpoint shape_n (n : snv) : option (list Z) :=
  match n with
  | SLeaf _ => Some []
  | SNode l =>
      match (fix go (l : list snv) : option (list (list Z)) :=
               match l with [] => Some [] | x :: r => match shape_n x, go r with Some a, Some b => Some (a :: b) | _, _ => None end end) l with
      | Some [] => Some [0]
      | Some (s :: ss) => if forallb (fun s' => list_eqb s s') ss then Some (zlen l :: s) else None
      | None => None
      end
  end.
Definition shape_tail (p : spv) : option (list Z) :=
  match p with
  | SPList l => match shape_n (SNode l) with Some (_ :: t) => Some t | _ => None end
  | _ => Some []
  end.

(* DimensionedItem._check_axis_vs_dimension *)
Definition check_axis_vs_dimension (st : bstate) (it : item) : res unit :=
  let ty := i_ty it in
  match fst (get_attr it (aidx ty n_axis)), int_list_of (fst (get_attr it (aidx ty n_dimension))) with
  | SPList axs, Some dims =>
      if negb (zlen axs =? zlen dims) then Err ERuntime
      else
        (fix go (axs : list snv) (dims : list Z) : res unit :=
           match axs, dims with
           | SLeaf (SItem a) :: ar, d :: dr =>
               match spv_len (fst (get_attr (item_at st a) (aidx T_AXIS n_coordinates))) with
               | Some nc => if nc =? d then go ar dr else Err ERuntime
               | None => go ar dr
               end
           | _ :: ar, _ :: dr => go ar dr
           | _, _ => OK tt
           end) axs dims
  | _, _ => OK tt
  end.

(* DimensionedItem._check_or_set_value_dimensionality *)
Definition check_or_set_dimensionality (it : item) (value : spv) : res item :=
  match value with
  | SPNone => OK it
  | _ =>
      match shape_tail value with
      | None => Err ERuntime
      | Some dim =>
          let di := aidx (i_ty it) n_dimension in
          match fst (get_attr it di) with
          | SPNone => OK (put_value it di (spv_ints dim))
          | d => match int_list_of d with
                 | Some dl => if list_eqb dl dim || (negb (nonnil dim) && list_eqb dl [1]) then OK it else Err ERuntime   (* scalar values have dimension [1] *)
                 | None => Err ERuntime
                 end
          end
      end
  end.

Definition counts_equal (it : item) (names : list (list Z)) : bool :=
  let cs := concat (map (fun n => match fst (get_attr it (aidx (i_ty it) n)) with
                                  | SPNone => [] | SPList l => [zlen l] | _ => [1] end) names) in
  match cs with [] => true | c :: r => forallb (Z.eqb c) r end.

Definition attr_code (st : bstate) (it : item) (idx : nat) : option Z :=
  match attr_rc (to_attr st (nth idx (td_attrs (tdef_at (i_ty it))) dummy_adef) (get_attr it idx)) with OK c => c | Err _ => None end.

Definition run_checks (st : bstate) (it : item) : res item :=
  let ty := i_ty it in
  let v n := fst (get_attr it (aidx ty n)) in
  if Nat.eqb ty T_ORIGIN then
    OK (match v n_field_name with SPNone => put_value it (aidx ty n_field_name) (SPScalar (SStr str_WILDCAT)) | _ => it end)
  else if Nat.eqb ty T_CHANNEL then
    let el := v n_element_limit in let dm := v n_dimension in
    do it1 <- (if negb (spv_truthy el) && spv_truthy dm then OK (put_value it (aidx ty n_element_limit) dm)
               else if negb (spv_truthy dm) && spv_truthy el then OK (put_value it (aidx ty n_dimension) el)
               else match int_list_of el, int_list_of dm with
                    | Some e, Some d => if list_eqb e d || elim_bounds e d then OK it else Err ERuntime
                    | _, _ => OK it
                    end);
    do _ <- check_axis_vs_dimension st it1;
    OK (if spv_truthy (fst (get_attr it1 (aidx ty n_long_name))) then it1
        else put_value it1 (aidx ty n_long_name) (SPScalar (SStr (i_name it1))))
  else if Nat.eqb ty T_PARAMETER || Nat.eqb ty T_COMPUTATION then
    let vals := v n_values in let zones := v n_zones in
    do _ <- (match vals, zones with
             | SPNone, _ => OK tt
             | _, SPNone => if Nat.eqb ty T_PARAMETER then
                              (match vals with SPList l => if 1 <? zlen (flatten (map (to_nval st) l)) then Err EValue else OK tt | _ => OK tt end)
                            else OK tt
             | SPList vl, SPList zl => if zlen vl =? zlen (flatten (map (to_nval st) zl)) then OK tt else Err ERuntime
             | _, _ => OK tt
             end);
    do it1 <- check_or_set_dimensionality it vals;
    let it2 := if spv_truthy vals && negb (spv_truthy (fst (get_attr it1 (aidx ty n_dimension))))
               then put_value it1 (aidx ty n_dimension) (spv_ints [1]) else it1 in
    (* the axes are checked against the dimension once it is known (it may have been derived from the values just now) *)
    do _ <- check_axis_vs_dimension st it2;
    OK it2
  else if Nat.eqb ty T_ZONE then
    match v n_domain with
    | SPScalar (SStr d) =>
        let rcs := concat (map (fun n => match attr_code st it (aidx ty n) with Some c => [c] | None => [] end) [n_maximum; n_minimum]) in
        match rcs with
        | [] => OK it
        | _ => let dts := map (Z.eqb 21) rcs in
               if list_eqb d str_TIME then (if existsb id dts && negb (forallb id dts) then Err ERuntime else OK it)
               else if existsb id dts then Err ERuntime else OK it
        end
    | _ => OK it
    end
  else if Nat.eqb ty T_CALCOEF then
    if counts_equal it [n_coefficients; n_references; n_plus_tolerances; n_minus_tolerances] then OK it else Err ERuntime
  else if Nat.eqb ty T_CALMEAS then
    if negb (counts_equal it [n_maximum_deviation; n_standard_deviation; n_standard; n_plus_tolerance; n_minus_tolerance]) then Err ERuntime
    else
      do it1 <- fold_left (fun acc n => do a <- acc; check_or_set_dimensionality a (fst (get_attr a (aidx ty n))))
                          [n_maximum_deviation; n_standard_deviation; n_standard; n_plus_tolerance; n_minus_tolerance] (OK it);
      do _ <- check_axis_vs_dimension st it1;
      OK it1
  else if Nat.eqb ty T_SPLICE then
    match v n_input_channels, v n_zones with
    | SPList a, SPList b => if zlen (flatten (map (to_nval st) a)) =? zlen (flatten (map (to_nval st) b)) then OK it else Err ERuntime
    | _, _ => OK it
    end
  else OK it.

(* ---- check_objects ---- *)
Definition lf_channels (st : bstate) (f : lfile) : list nat := reg_items st (l_reg f) T_CHANNEL.
Definition lf_frames (st : bstate) (f : lfile) : list nat := reg_items st (l_reg f) T_FRAME.

Definition frame_channels (st : bstate) (fr : nat) : list nat :=
  refs_of (fst (get_attr (item_at st fr) (aidx T_FRAME n_channels))).

Definition count_in (x : nat) (l : list nat) : Z := zlen (filter (Nat.eqb x) l).

(* returns the state with the defining origin's FILE-ID filled in *)
Definition check_objects (hc : bool) (st : bstate) (l : nat) (f : lfile) : res bstate :=
  match lf_origins st f with
  | [] => Err ERuntime
  | o :: _ =>
      let chans := lf_channels st f in
      let frames := lf_frames st f in
      if negb (nonnil chans) then Err ERuntime
      else if negb (nonnil frames) then Err ERuntime
      else
        let used := concat (map (frame_channels st) frames) in
        if negb (forallb (fun c => existsb (Nat.eqb c) chans) used) then Err ERuntime
        else if hc && existsb (fun c => negb (count_in c used =? 1)) chans then Err ERuntime
        else
          let oi := item_at st o in
          let fi := aidx T_ORIGIN n_file_id in
          match fst (get_attr oi fi) with
          | SPNone => OK (set_item st o (put_value oi fi (SPScalar (SStr (l_hid f)))))
          | SPScalar (SStr s) => if list_eqb s (l_hid f) then OK st else Err EValue
          | _ => Err EValue
          end
  end.

(* ---- data routing and frame set-up (_make_multi_frame_data, setup_from_data) ---- *)
Fixpoint data_find (d : list (list Z * chdata)) (k : list Z) : option chdata :=
  match d with [] => None | (k', v) :: r => if list_eqb k k' then Some v else data_find r k end.
Definition data_merge (a b : list (list Z * chdata)) : list (list Z * chdata) :=
  fold_left (fun acc '(k, v) =>
               (fix put (l : list (list Z * chdata)) :=
                  match l with [] => [(k, v)] | (k', v') :: r => if list_eqb k k' then (k', v) :: r else (k', v') :: put r end) acc) b a.

Definition set_ldata (f : lfile) (d : list (list Z * chdata)) : lfile :=
  {| l_hid := l_hid f; l_seq := l_seq f; l_ident := l_ident f; l_fh_origin := l_fh_origin f; l_reg := l_reg f;
     l_nofmt := l_nofmt f; l_data := d |}.

Definition f64_of_small (z : Z) : Z := match int_to_f64 z with OK b => b | Err _ => 0 end.

(* assign_if_none *)
Definition assign_value_if_none (it : item) (idx : nat) (v : spv) : item :=
  match fst (get_attr it idx) with SPNone => put_value it idx v | _ => it end.
Definition assign_units_if_none (it : item) (idx : nat) (u : option (list Z)) : item :=
  match snd (get_attr it idx), u with None, Some _ => put_units it idx u | _, _ => it end.

(* one channel: ChannelItem.set_dimension_and_repr_code_from_data *)
Definition setup_channel (st : bstate) (c : nat) (d : chdata) : res bstate :=
  let it := item_at st c in
  let di := aidx T_CHANNEL n_dimension in let ei := aidx T_CHANNEL n_element_limit in
  let dim := match cd_shape d with [] => [1] | s => s end in
  let udim := fst (get_attr it di) in
  if negb (Nat.eqb (i_ty it) T_CHANNEL) then Err EOther else     (* FRAME.CHANNELS only accepts channel objects *)
  do it1 <- (match int_list_of udim with
             | Some dl => if list_eqb dl dim then OK it
                          else if spv_truthy udim then Err ERuntime else OK (put_value it di (spv_ints dim))
             | None => match udim with SPNone => OK (put_value it di (spv_ints dim)) | _ => Err ERuntime end
             end);
  let uel := fst (get_attr it1 ei) in
  do it2 <- (match int_list_of uel with
             | Some el => if list_eqb el dim then OK it1
                          else if spv_truthy uel then (if elim_bounds el dim then OK it1 else Err ERuntime)
                          else OK (put_value it1 ei (spv_ints dim))
             | None => match uel with SPNone => OK (put_value it1 ei (spv_ints dim)) | _ => Err ERuntime end
             end);
  (* _set_repr_code_from_data: keep a cast dtype, else adopt the source dtype *)
  let it3 := match i_cast it2 with Some _ => it2 | None => put_cast it2 (Some (cd_code d)) end in
  OK (set_item st c it3).

(* the per-frame part of generate_logical_records; returns the state (mutated) and the rows to write *)
Definition setup_frame (hc : bool) (st : bstate) (l : nat) (w : wopts) (wf : wframe) : res (bstate * option (list (list slot))) :=
  match lf_at st l with
  | None => Err EOther
  | Some f =>
      let fr := wf_item wf in
      let chans := frame_channels st fr in
      (* data routing: None -> {}; a dict is merged into (and kept in) the logical file's data dict *)
      let merged := data_merge (l_data f) (match w_data w with Some d => d | None => [] end) in
      let st1 := set_lf st l (set_ldata f merged) in
      (* DictDataWrapper: determine_dtypes over the mapping channel name -> dataset name *)
      let names := map (fun c => i_name (item_at st1 c)) chans in
      do infos <- (fix go (cs : list nat) : res (list chdata) :=
                     match cs with
                     | [] => OK []
                     | c :: r =>
                         match data_find merged (dataset_name_of (item_at st1 c)) with
                         | None => Err EValue
                         | Some d =>
                             let wt := match i_cast (item_at st1 c) with Some k => k | None => cd_code d end in
                             if negb (valid_dtype wt) then Err EValue
                             else if 1 <? zlen (cd_shape d) then Err ERuntime
                             else do r' <- go r; OK (d :: r')
                         end
                     end) chans;
      if negb (distinct names) then Err EValue            (* np.dtype: duplicate field names *)
      else
      match infos with
      | [] => Err ERuntime
      | d0 :: _ =>
          let total := cd_rows d0 in
          let to_ := match w_to w with Some t => t | None => total end in
          (* the window lies inside the data: 0 <= from < total, to <= total, at least one row *)
          if w_from w <? 0 then Err EValue
          else if total <=? w_from w then Err EValue
          else if total <? to_ then Err EValue
          else if to_ - w_from w <? 1 then Err EValue
          else
            (* _check_data: signed integer data *)
            let written := map (fun '(c, d) => match i_cast (item_at st1 c) with Some k => k | None => cd_code d end) (combine chans infos) in
            if hc && existsb is_sint_code written then Err ERuntime
            else
              (* setup_from_data: channels, then frame parameters *)
              do st2 <- fold_left (fun acc '(c, d) => do s <- acc; setup_channel s c d) (combine chans infos) (OK st1);
              let fi := item_at st2 fr in
              let ix n := aidx T_FRAME n in
              let nrows := to_ - w_from w in
              do fi' <-
                (match fst (get_attr fi (ix n_index_type)) with
                 | SPNone =>
                     let a := assign_value_if_none fi (ix n_spacing) (SPScalar (SFloat (f64_of_small 1))) in
                     let b := assign_value_if_none a (ix n_index_min) (SPScalar (SFloat (f64_of_small 1))) in
                     OK (assign_value_if_none b (ix n_index_max) (SPScalar (SFloat (f64_of_small nrows))))
                 | _ =>
                     match wf_index wf, chans with
                     | Some s, c0 :: _ =>
                         let a := assign_value_if_none fi (ix n_index_min) (SPScalar (SFloat (ix_min s))) in
                         let b := assign_value_if_none a (ix n_index_max) (SPScalar (SFloat (ix_max s))) in
                         let u := match fst (get_attr (item_at st2 c0) (aidx T_CHANNEL n_units)) with SPScalar (SStr x) => Some x | _ => None end in
                         let c := assign_units_if_none (assign_units_if_none (assign_units_if_none b (ix n_index_min) u) (ix n_index_max) u) (ix n_spacing) u in
                         if negb (ix_1d s) then Err ERuntime
                         else match ix_spacing s with
                              | Some sp => OK (assign_value_if_none c (ix n_spacing) (SPScalar (SFloat sp)))
                              | None =>
                                  if nrows <? 2 then OK c
                                  else if hc then Err ERuntime
                                  else OK (match ix_direction s with
                                           | Some up => assign_value_if_none c (ix n_direction) (SPScalar (SStr (if up then str_INCREASING else str_DECREASING)))
                                           | None => c end)
                              end
                     | _, _ => Err EOther
                     end
                 end);
              (* every data set of the frame must have as many rows as the first one (checked when loading) *)
              let st3 := set_item st2 fr fi' in
              OK (st3, if forallb (fun d => cd_rows d =? total) infos then Some (slice (w_from w) to_ (wf_rows wf)) else None)
      end
  end.

(* ---- records ---- *)
Definition obj_of (st : bstate) (i : nat) : obj :=
  let it := item_at st i in
  {| o_name := snd (ident_of st i);
     o_attrs := map (fun '(ad, vu) => to_attr st ad vu) (combine (td_attrs (tdef_at (i_ty it))) (i_attrs it)) |}.

(* the REPRESENTATION-CODE attribute of a channel holds the code of the cast dtype *)
Definition sync_repr_code (it : item) : item :=
  if Nat.eqb (i_ty it) T_CHANNEL then
    put_value it (aidx T_CHANNEL n_representation_code) (match i_cast it with Some c => SPScalar (SInt c) | None => SPNone end)
  else it.

(* EFLRSet._make_body_bytes: per item, checks and defaults (mutating), then its bytes *)
Definition enc_sset (st : bstate) (sid : nat) : res (bstate * lrec) :=
  let s := set_at st sid in
  let td := tdef_at (s_ty s) in
  do r <- fold_left (fun acc i =>
                       do (st1, bs) <- acc;
                       do it <- run_checks st1 (sync_repr_code (item_at st1 i));
                       let st2 := set_item st1 i it in
                       do b <- enc_obj (obj_of st2 i);
                       OK (st2, bs ++ b))
                    (s_items s) (OK (st, []));
  let '(st', objs) := r in
  match s_items s with
  | [] => OK (st', {| lr_eflr := true; lr_type := td_lrtype td; lr_body := [] |})
  | i0 :: _ =>
      do sc <- enc_set_comp {| e_type := td_settype td; e_name := s_name s; e_objs := [] |};
      do tb <- enc_list enc_attr_tmpl (o_attrs (obj_of st i0));
      OK (st', {| lr_eflr := true; lr_type := td_lrtype td; lr_body := sc ++ tb ++ objs |})
  end.

Definition payload_of (p : payload_in) : res payload :=
  match p with
  | PayBytes b => if all_bytes b then OK (PBytes b) else Err EOther      (* a Python bytes object only holds 0..255 *)
  | PayText s => OK (PText s)
  | PayOther => Err EOther
  end.

Definition lf_records (st : bstate) (f : lfile) (frames : list (nat * list (list slot))) : res (bstate * list lrec) :=
  (* FILE-HEADER *)
  do fh <- enc_fileheader {| on_origin := l_fh_origin f; on_copy := 0; on_name := l_ident f |} (l_seq f) (l_hid f);
  let fhrec := {| lr_eflr := true; lr_type := 0; lr_body := fh |} in
  (* ORIGIN sets first, then every other class in key-insertion order *)
  let sids := map snd (reg_lookup (l_reg f) T_ORIGIN)
              ++ concat (map (fun '(k, d) => if Nat.eqb k T_ORIGIN then [] else map snd d) (l_reg f)) in
  do r <- fold_left (fun acc sid => do (s, recs) <- acc; do (s', r) <- enc_sset s sid; OK (s', recs ++ [r])) sids (OK (st, [fhrec]));
  let '(st1, erecs) := r in
  (* no-format data, in call order *)
  do nf <- (fix go (l : list (raw * payload_in)) : res (list lrec) :=
              match l with
              | [] => OK []
              | (RRef i, p) :: rest =>
                  match nth_error (b_items st1) i with
                  | Some _ => do p' <- payload_of p; do x <- nofmt_rec (snd (ident_of st1 i)) p'; do xs <- go rest; OK (x :: xs)
                  | None => Err EOther
                  end
              | _ => Err EOther
              end) (l_nofmt f);
  (* frame data, frame by frame, rows numbered from 1 *)
  do fd <- (fix go (l : list (nat * list (list slot))) : res (list lrec) :=
              match l with
              | [] => OK []
              | (fr, rows) :: rest => do x <- frame_recs (snd (ident_of st1 fr)) 1 rows; do xs <- go rest; OK (x ++ xs)
              end) frames;
  OK (st1, erecs ++ nf ++ fd).

Definition find_wframe (w : wopts) (fr : nat) : option wframe :=
  (fix go (l : list wframe) := match l with [] => None | x :: r => if Nat.eqb (wf_item x) fr then Some x else go r end) (w_frames w).

(* 1. check_objects, every logical file *)
Fixpoint check_all (hc : bool) (k : nat) (fs : list lfile) (s : bstate) : res bstate :=
  match fs with
  | [] => OK s
  | _ :: rest => match lf_at s k with
                 | Some f => do s' <- check_objects hc s k f; check_all hc (S k) rest s'
                 | None => Err EOther end
  end.

Definition rows_t := list (list slot).

(* 2. the frames of one logical file: data wrappers and set-up from data *)
Definition setup_step (hc : bool) (w : wopts) (k : nat) (acc : bstate * res (list (nat * option rows_t))) (fr : nat)
  : bstate * res (list (nat * option rows_t)) :=
  let '(sa, ra) := acc in
  match ra with
  | Err e => (sa, Err e)
  | OK l =>
      match find_wframe w fr with
      | None => (sa, Err EOther)
      | Some wf => match setup_frame hc sa k w wf with
                   | OK (sb, rows) => (sb, OK (l ++ [(fr, rows)]))
                   | Err e => (sa, Err e)      (* mutations of the failed frame are dropped in the model: see note *)
                   end
      end
  end.

Fixpoint setup_all (hc : bool) (w : wopts) (k : nat) (fs : list lfile) (s : bstate) (acc : list (list (nat * option rows_t))) {struct fs}
  : bstate * res (list (list (nat * option rows_t))) :=
  match fs with
  | [] => (s, OK acc)
  | _ :: rest =>
      match lf_at s k with
      | None => (s, Err EOther)
      | Some f =>
          let '(s', fr) := fold_left (setup_step hc w k) (lf_frames s f) (s, OK []) in
          match fr with
          | Err e => (s', Err e)
          | OK l => setup_all hc w (S k) rest s' (acc ++ [l])
          end
      end
  end.

(* 3. the records of every logical file, in generator order *)
Fixpoint records_all (k : nat) (l : list (list (nat * option rows_t))) (s : bstate) (acc : list lrec) {struct l} : bstate * res (list lrec) :=
  match l with
  | [] => (s, OK acc)
  | frs :: rest =>
      match lf_at s k with
      | None => (s, Err EOther)
      | Some f =>
          match map_opt (fun '(fr, rows) => match rows with Some r => Some (fr, r) | None => None end) frs with
          | None =>
              (* a data set with a different number of rows: raised when the first chunk is loaded,
                 after the EFLRs of this logical file were produced *)
              match lf_records s f [] with
              | OK (s', _) => (s', Err EValue)
              | Err e => (s, Err e)
              end
          | Some frs' =>
              match lf_records s f frs' with
              | OK (s', recs) => records_all (S k) rest s' (acc ++ recs)
              | Err e => (s, Err e)
              end
          end
      end
  end.

(* DLISFile.write *)
Definition write (hc : bool) (st : bstate) (w : wopts) : bstate * res bytes :=
  match check_all hc 0%nat (b_lfs st) st with
  | Err e => (st, Err e)
  | OK st1 =>
      match setup_all hc w 0%nat (b_lfs st1) st1 [] with
      | (st2, Err e) => (st2, Err e)
      | (st2, OK perlf) =>
          (* the writer: record length, label, then the records *)
          if negb (check_vrl (w_vrl w)) then (st2, Err EValue)
          else
            match sul_bytes {| sul_seq := w_seq w; sul_vrl := w_vrl w; sul_id := w_ident w |} with
            | Err e => (st2, Err e)
            | OK _ =>
                match records_all 0%nat perlf st2 [] with
                | (st3, Err e) => (st3, Err e)
                | (st3, OK recs) => (st3, write_file {| sul_seq := w_seq w; sul_vrl := w_vrl w; sul_id := w_ident w |} recs)
                end
            end
      end
  end.
