(* FileReader.v — the complete strict reader: framing, reassembly, component grammar of every EFLR. *)
From DV Require Export Model.Reader Model.EflrReader Model.Iflr.

Inductive lrd :=
| LR_E (ty : Z) (d : dset)            (* explicitly formatted record, decoded *)
| LR_I (ty : Z) (body : bytes).       (* indirectly formatted record *)

Definition decode_rec (r : lrec) : option lrd :=
  if lr_eflr r then match dec_set (lr_body r) with Some d => Some (LR_E (lr_type r) d) | None => None end
  else Some (LR_I (lr_type r) (lr_body r)).

Definition read_logical (c : sulcfg) (bs : bytes) : option (list lrd) :=
  match read_records c bs with
  | Some recs => map_opt decode_rec recs
  | None => None
  end.
