(* Output.v — model of ByteWriter / BufferedOutput / the tail of DLISWriter.write_logical_records,
   and of SourceDataWrapper.make_chunked_generator's chunk arithmetic (input chunks). *)
From DV Require Export Model.Segment.

Record ostate := {
  o_disk : bytes;          (* content of the target file *)
  o_append : bool;         (* ByteWriter._append *)
  o_total : Z;             (* ByteWriter._total_size *)
  o_buf : bytes;           (* BufferedOutput._bts[:_filled_size] *)
  o_snaps : list bytes     (* disk content after each physical write, most recent first *)
}.

Definition o_init (disk0 : bytes) : ostate :=
  {| o_disk := disk0; o_append := false; o_total := 0; o_buf := []; o_snaps := [] |}.

(* ByteWriter.write_bytes: 'wb' the first time, 'ab' afterwards *)
Definition write_bytes (s : ostate) (b : bytes) : ostate :=
  let d := if o_append s then o_disk s ++ b else b in
  {| o_disk := d; o_append := true; o_total := o_total s + zlen b; o_buf := o_buf s; o_snaps := d :: o_snaps s |}.

(* BufferedOutput.pass_bytes_to_writer *)
Definition flush (s : ostate) : ostate :=
  let s' := write_bytes s (o_buf s) in
  {| o_disk := o_disk s'; o_append := o_append s'; o_total := o_total s'; o_buf := []; o_snaps := o_snaps s' |}.

(* BufferedOutput.add_bytes *)
Definition add_bytes (cap : Z) (s : ostate) (b : bytes) : ostate :=
  let s1 := if cap <? zlen (o_buf s) + zlen b then flush s else s in
  {| o_disk := o_disk s1; o_append := o_append s1; o_total := o_total s1; o_buf := o_buf s1 ++ b; o_snaps := o_snaps s1 |}.

(* _check_output_chunk_size for a numeric argument given as an exact rational num/den (den > 0);
   `output_chunk_size or 2**32` first replaces a zero or None *)
Definition check_out_chunk (vrl num den : Z) : res Z :=
  let '(num, den) := if num =? 0 then (4294967296, 1) else (num, den) in
  if negb (num mod den =? 0) then Err EValue
  else let c := num / den in if c <? vrl then Err EValue else OK c.

(* write_storage_unit_label ; write_logical_records: final state *)
Definition run_output (cap : Z) (disk0 sul : bytes) (vrs : list bytes) : ostate :=
  flush (fold_left (add_bytes cap) vrs (write_bytes (o_init disk0) sul)).


(* DLISWriter end to end: label, records, buffered output with the given (already validated) buffer size *)
Definition write_buffered (c : sulcfg) (recs : list lrec) (cap : Z) (disk0 : bytes) : res ostate :=
  if negb (check_vrl (sul_vrl c)) then Err EValue
  else
    do s <- sul_bytes c;
    do vs <- vrs_of_recs (sul_vrl c) recs;
    OK (run_output cap disk0 s vs).
