(* Extract.v — extraction of the executable model. ExtrOcamlBasic only: bool, option, unit, list, prod,
   sumbool, sumor map to the OCaml types of the same shape; Z, positive, nat stay the extracted inductives.
   No Extract Constant. *)
From Coq Require Import Extraction ExtrOcamlBasic.
From DV Require Import Model.Dispatch.
Extraction Language OCaml.
Extraction "model.ml" dispatch Z.add Z.mul Z.div Z.modulo Z.opp Z.eqb Z.ltb.
